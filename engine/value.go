package main

// Interpreter values and heap.

import (
	"fmt"
	"go/types"

	"golang.org/x/tools/go/ssa"
)

// Value is one of:
//   *Term            scalar (bool, integers as BV, floats per domain)
//   Ptr              pointer
//   SliceV           slice
//   *StrV            string
//   *StructV         struct (value semantics; copied on load/store)
//   *ArrayV          array
//   Iface            interface value
//   *Closure         function value
//   *MapV            map (reference)
//   TupleV           multiple results
//   *IterV           range iterator
//   nil              absent
type Value interface{}

type Object struct {
	id      int
	val     Value // container: *StructV, *ArrayV, or a scalar cell
	frozen  bool
	global  bool // created during the init phase (shared, copy-on-write per path)
	site    string
	isConst bool
}

type PathElem struct {
	idx int
	sym *Term // non-nil: symbolic index (BV64), idx ignored
	lo  int   // valid range for symbolic index [lo,hi)
	hi  int
}

type Ptr struct {
	obj  *Object
	path []PathElem
	fn   *ssa.Function // pointer-to-function? unused
}

func (p Ptr) IsNil() bool { return p.obj == nil }

type SliceV struct {
	obj         *Object // backing array object (val is *ArrayV); nil for nil slice
	off, n, cap int
}

type StrV struct {
	conc   string
	isConc bool
	b      []*Term // BV8 terms when not concrete
}

func concStr(s string) *StrV { return &StrV{conc: s, isConc: true} }

func (s *StrV) Len() int {
	if s.isConc {
		return len(s.conc)
	}
	return len(s.b)
}

func (s *StrV) Byte(ctx *TermCtx, i int) *Term {
	if s.isConc {
		return ctx.BVConst(uint64(s.conc[i]), 8)
	}
	return s.b[i]
}

func (s *StrV) Bytes(ctx *TermCtx) []*Term {
	if !s.isConc {
		return s.b
	}
	out := make([]*Term, len(s.conc))
	for i := range out {
		out[i] = ctx.BVConst(uint64(s.conc[i]), 8)
	}
	return out
}

func strFromBytes(bs []*Term) *StrV {
	all := true
	for _, b := range bs {
		if !b.IsConst() {
			all = false
			break
		}
	}
	if all {
		buf := make([]byte, len(bs))
		for i, b := range bs {
			buf[i] = byte(b.U)
		}
		return concStr(string(buf))
	}
	cp := make([]*Term, len(bs))
	copy(cp, bs)
	return &StrV{b: cp}
}

type StructV struct {
	f []Value
}

type ArrayV struct {
	e []Value
}

type Iface struct {
	typ types.Type // nil => nil interface
	val Value
}

type Closure struct {
	fn       *ssa.Function
	bindings []Value
	builtin  *ssa.Builtin
	// bound method on interface (rare): not supported
}

type mapEntry struct {
	k, v Value
}

type MapV struct {
	entries []mapEntry
	index   map[string]int // canonical key -> entry index (concrete keys only)
	frozen  bool
	global  bool
	id      int
}

type TupleV []Value

type IterV struct {
	str  *StrV
	m    *MapV
	pos  int
	keys []mapEntry
}

// opaque error produced by the fmt.Errorf model.
type OpaqueErr struct {
	id   int
	wrap Value // wrapped error (Iface) if %w was used, else nil
	note string
}

func (s *State) zero(t types.Type) Value {
	switch u := t.Underlying().(type) {
	case *types.Basic:
		info := u.Info()
		switch {
		case info&types.IsBoolean != 0:
			return s.ctx.False()
		case info&types.IsString != 0:
			return concStr("")
		case info&types.IsFloat != 0:
			return s.fconstFloat(0)
		case info&types.IsInteger != 0:
			return s.ctx.BVConst(0, intWidth(u))
		case u.Kind() == types.UnsafePointer:
			return Ptr{}
		case u.Kind() == types.UntypedNil:
			return nil
		}
		panic(abortf("zero: unsupported basic type %v", t))
	case *types.Pointer:
		return Ptr{}
	case *types.Slice:
		return SliceV{}
	case *types.Struct:
		sv := &StructV{f: make([]Value, u.NumFields())}
		for i := range sv.f {
			sv.f[i] = s.zero(u.Field(i).Type())
		}
		return sv
	case *types.Array:
		av := &ArrayV{e: make([]Value, u.Len())}
		// share the zero for scalars (immutable terms); fresh containers for aggregates
		for i := range av.e {
			av.e[i] = s.zero(u.Elem())
		}
		return av
	case *types.Interface:
		return Iface{}
	case *types.Signature:
		return (*Closure)(nil)
	case *types.Map:
		return (*MapV)(nil)
	case *types.Chan:
		return nil
	case *types.Tuple:
		tv := make(TupleV, u.Len())
		for i := range tv {
			tv[i] = s.zero(u.At(i).Type())
		}
		return tv
	}
	panic(abortf("zero: unsupported type %v", t))
}

func intWidth(b *types.Basic) int {
	switch b.Kind() {
	case types.Int8, types.Uint8:
		return 8
	case types.Int16, types.Uint16:
		return 16
	case types.Int32, types.Uint32, types.UntypedRune:
		return 32
	default:
		return 64
	}
}

func isUnsigned(t types.Type) bool {
	b, ok := t.Underlying().(*types.Basic)
	return ok && b.Info()&types.IsUnsigned != 0
}

func isFloat(t types.Type) bool {
	b, ok := t.Underlying().(*types.Basic)
	return ok && b.Info()&types.IsFloat != 0
}

func isInteger(t types.Type) bool {
	b, ok := t.Underlying().(*types.Basic)
	return ok && b.Info()&types.IsInteger != 0
}

func isString(t types.Type) bool {
	b, ok := t.Underlying().(*types.Basic)
	return ok && b.Info()&types.IsString != 0
}

func isBool(t types.Type) bool {
	b, ok := t.Underlying().(*types.Basic)
	return ok && b.Info()&types.IsBoolean != 0
}

// copyVal makes a deep copy of aggregates (structs, arrays); references are shared.
func copyVal(v Value) Value {
	switch x := v.(type) {
	case *StructV:
		n := &StructV{f: make([]Value, len(x.f))}
		for i, f := range x.f {
			n.f[i] = copyVal(f)
		}
		return n
	case *ArrayV:
		n := &ArrayV{e: make([]Value, len(x.e))}
		for i, e := range x.e {
			n.e[i] = copyVal(e)
		}
		return n
	case TupleV:
		n := make(TupleV, len(x))
		for i, e := range x {
			n[i] = copyVal(e)
		}
		return n
	}
	return v
}

func (s *State) newObject(val Value, site string) *Object {
	s.nextObj++
	o := &Object{id: s.nextObj, val: val, site: site, global: s.initPhase}
	return o
}

// resolve returns the object to read from (per-path overlay of global objects).
func (s *State) resolve(o *Object) *Object {
	if o.global && !s.initPhase {
		if ov, ok := s.overlay[o]; ok {
			return ov
		}
	}
	return o
}

// writable returns the object to write to, creating a per-path copy of global objects.
func (s *State) writable(o *Object) *Object {
	if o.global && !s.initPhase {
		if ov, ok := s.overlay[o]; ok {
			return ov
		}
		cp := &Object{id: o.id, val: copyVal(o.val), site: o.site, frozen: o.frozen}
		s.overlay[o] = cp
		return cp
	}
	return o
}

func (v *StrV) String() string {
	if v.isConc {
		return fmt.Sprintf("%q", v.conc)
	}
	return fmt.Sprintf("<symstr len=%d>", len(v.b))
}
