package main

func checkSpecs() map[string]CheckSpec {
	m := map[string]CheckSpec{}
	add := func(c CheckSpec) { m[c.Property] = c }
	B := DomainB
	add(CheckSpec{Property: "C01", Harnesses: []HarnessSpec{
		{Func: "HC01_Point", Domain: B, Covers: []string{"accepted", "rejected"}},
		{Func: "HC01_LineString", Domain: B, Covers: []string{"accepted", "rejected"}},
		{Func: "HC01_Polygon", Domain: B, Covers: []string{"accepted", "rejected"}},
		{Func: "HC01_MultiPoint", Domain: B, Covers: []string{"accepted", "rejected"}},
		{Func: "HC01_MultiPolygon", Domain: B, Covers: []string{"accepted", "rejected"}},
		{Func: "HC01_Flat", Domain: B, Covers: []string{"end"}},
	}, Explanation: "SetCoords/Coords/New*Flat of all seven geometry types executed symbolically for every nested-coordinate shape inside the bounds, every layout in {NoLayout,XY,XYZ,XYM,XYZM,Layout(5),Layout(6)} and every float64 bit pattern."})
	add(CheckSpec{Property: "C02", Harnesses: []HarnessSpec{
		{Func: "HC02_MultiPolygonPush", Domain: B, Covers: []string{"pushed", "rejected"}},
		{Func: "HC02_PolygonPush", Domain: B, Covers: []string{"pushed", "rejected"}},
		{Func: "HC02_MultiPointPush", Domain: B, Covers: []string{"pushed", "rejected"}},
		{Func: "HC02_Reverse", Domain: B, Covers: []string{"end"}},
		{Func: "HC02_Reverse12", Domain: B, Covers: []string{"end"}},
		{Func: "HC02_Swap", Domain: B, Covers: []string{"end"}},
		{Func: "HC02_Collection", Domain: B, Covers: []string{"pushed", "rejected"}},
	}, Explanation: "One inductive Push step from an arbitrary well-formed pre-state (shape symbolic inside the bounds) for Polygon, MultiLineString, MultiPoint, MultiPolygon, GeometryCollection; Reverse and Swap."})
	add(CheckSpec{Property: "C03", Harnesses: []HarnessSpec{
		{Func: "HC03_WKB", Domain: B, Covers: []string{"roundtrip", "refused"}},
		{Func: "HC03_EWKB", Domain: B, Covers: []string{"roundtrip"}},
		{Func: "HC03_MemberSRID", Domain: B, Tiers: "thorough", Covers: []string{"end"}},
		{Func: "HC03_Unsupported", Domain: B, Covers: []string{"end"}},
		{Func: "HC03_WriteFails", Domain: B, Covers: []string{"complete", "failed"}},
		{Func: "HC03_ReadSplit", Domain: B, Covers: []string{"end"}},
		{Func: "HC03_Hex", Domain: B, Covers: []string{"end"}},
		{Func: "HC03_SQL", Domain: B, Covers: []string{"scanned", "wrong-type"}},
	}, Explanation: "wkb/ewkb Marshal compared byte for byte with an independent reference encoder written from the format documents, then decoded back; stream writers that fail after k bytes, readers that split arbitrarily; hex and database/sql wrappers.",
		Outside: []string{"geometry trees deeper/wider than the bounds", "reader split patterns beyond the first 7 calls being chosen from {1,2,all} (later calls: 1 or all)"}})
	add(CheckSpec{Property: "C04", Harnesses: []HarnessSpec{
		{Func: "HC04_WKB", Domain: B, Covers: []string{"decoded", "error", "too-large"}},
		{Func: "HC04_EWKB", Domain: B, Covers: []string{"decoded", "error", "too-large"}},
		{Func: "HC04_Polygon", Domain: B, Covers: []string{"decoded", "error", "too-large"}},
	}, Explanation: "wkb.Unmarshal / ewkb.Unmarshal executed on an arbitrary symbolic byte string of symbolic length with symbolic per-level limits."})
	add(CheckSpec{Property: "C08", Harnesses: []HarnessSpec{
		{Func: "HC08_Tight", Domain: DomainK, Covers: []string{"end"}},
		{Func: "HC08_Extend", Domain: DomainK, Covers: []string{"end"}},
		{Func: "HC08_Collection", Domain: DomainK, Covers: []string{"end"}},
		{Func: "HC08_Overlaps", Domain: DomainK, Covers: []string{"end"}},
	}, Explanation: "Bounds/Extend/Overlaps executed symbolically over every non-NaN float64 bit pattern."})
	add(CheckSpec{Property: "C09", Harnesses: []HarnessSpec{
		{Func: "HC09_TotalMultiPolygon", Domain: B, Covers: []string{"end"}},
		{Func: "HC09_TotalOthers", Domain: B, Covers: []string{"end"}},
	}, Explanation: "Bounded symbolic execution of Area/Length."})
	add(CheckSpec{Property: "C16", Harnesses: []HarnessSpec{
		{Func: "HC16_Clone", Domain: B, Covers: []string{"end"}},
		{Func: "HC16_ClonePush", Domain: B, Covers: []string{"end"}},
		{Func: "HC16_CoordBounds", Domain: B, Covers: []string{"end"}},
	}, Explanation: "Clone of every cloneable type on arbitrary well-formed geometries; heap-object identity decides sharing."})
	X := DomainX
	add(CheckSpec{Property: "C20", Harnesses: []HarnessSpec{
		{Func: "HC20_Distance", Pkg: "xy", Domain: X, RealInputs: true, Covers: []string{"end"}},
		{Func: "HC20_Worker", Domain: X, RealInputs: true, Covers: []string{"end"}},
		{Func: "HC20_Simplify", Domain: X, RealInputs: true, Covers: []string{"end"}},
	}, Explanation: "xy.SimplifyFlatCoords executed symbolically on integer-grid points with a symbolic threshold; the interval stack, mask and distance function run for real; distances are exact reals.",
		Outside: []string{"more points than the bound", "ordinates off the integer grid / rounding inside distanceFromSegmentSquared near ties (the division is followed in exact real arithmetic)"}})
	add(CheckSpec{Property: "C10", Harnesses: []HarnessSpec{
		{Func: "HC10_Exact", Domain: X, RoundModel: true, DeltaModel: true, Covers: []string{"end"}},
		{Func: "HC10_Symmetry", Domain: X, RoundModel: true, DeltaModel: true, Covers: []string{"end"}},
		{Func: "HC10_Search", Domain: X, RoundModel: true, IntInputs: true, NoPrune: true, BugHunt: true, Tiers: "search", Covers: []string{"end"}},
	}, Explanation: "bigxy.OrientationIndex (floating-point filter and big.Float fallback) on integer-valued ordinates: exact-representability obligations, exact RN53 model for integer results beyond 2^53, (1+d) enclosure for the multiplication by dpSafeEpsilon, precision-tracking model of math/big.Float.",
		Assumptions: []string{"math/big.Float follows its documented precision/rounding rules (model in engine/bigfloat.go)"},
		Outside: []string{"non-integer ordinates; ordinates beyond the grid bound (most of [1e-100,1e100])"}})
	add(CheckSpec{Property: "C11", Harnesses: []HarnessSpec{
		{Func: "HC11_SignOfDet", Pkg: "xy/internal/robustdeterminate", Domain: X, IntInputs: true, Covers: []string{"end"}},
		{Func: "HC11_Ring", Pkg: "xy", Domain: X, Covers: []string{"end"}},
		{Func: "HC11_RingEndToEnd", Pkg: "xy", Domain: X, IntInputs: true, Covers: []string{"end"}},
		{Func: "HC11_OnLine", Pkg: "xy", Domain: X, Covers: []string{"end"}},
		{Func: "HC11_OnLineTooShort", Pkg: "xy", Domain: X, Covers: []string{"end"}},
	}, Explanation: "Ray-crossing point location and on-line tests executed symbolically on integer-grid rings/lines against exact references; SignOfDet2x2 and OrientationIndex summarised by their specifications, which are checked separately.",
		Assumptions: []string{"summary: robustdeterminate.SignOfDet2x2 = sign(x1*y2 - y1*x2) (checked against the real loop by HC11_SignOfDet for |v| <= 2^3|2^5 only)", "summary: bigxy.OrientationIndex = sign of the exact determinant (C10, grid <= 2^25)"},
		Outside: []string{"rings with more vertices than the bound", "SignOfDet2x2 beyond the small grid on which its loop is unrolled", "non-grid floats"}})
	add(CheckSpec{Property: "C13", Harnesses: []HarnessSpec{
		{Func: "HC13_Small", Pkg: "xy", Domain: X, Covers: []string{"end"}},
		{Func: "HC13_Geom", Pkg: "xy", Domain: X, Covers: []string{"end"}},
		{Func: "HC13_Large", Pkg: "xy", Domain: X, Covers: []string{"end"}},
	}, Explanation: "xy.ConvexHullFlat / ConvexHull executed symbolically on integer-grid point multisets (de-duplication tree, radial sort with the real sort.Sort, Graham scan, cleanRing, octagon reduction); result compared with exact hull conditions.",
		Assumptions: []string{"summary: bigxy.OrientationIndex = sign of the exact determinant (C10, grid <= 2^25)"},
		Outside: []string{"more distinct points than the bound; 6..50 points; more than 53 points", "non-grid floats"}})
	c15 := func(f string) HarnessSpec {
		return HarnessSpec{Func: f, Domain: X, RealInputs: true, NonFinite: true, Covers: []string{"end"}}
	}
	add(CheckSpec{Property: "C15", Harnesses: []HarnessSpec{
		c15("HC15_PointLine2D"), c15("HC15_Perpendicular2D"), c15("HC15_PointLineString2D"), c15("HC15_Degenerate2D"),
		c15("HC15_Point3D"), c15("HC15_Degenerate3D"),
	}, Explanation: "2D and 3D distance functions executed symbolically over all real ordinates of the range; sqrt as r>=0, r*r=x; results compared with division-free exact specifications.",
		Outside: []string{"the 1e-9 relative rounding tolerance (claims are about the real-number semantics of the code)"}})
	add(CheckSpec{Property: "C06", Harnesses: []HarnessSpec{
		{Func: "HC06_Tokens", Pkg: "encoding/wkt", Domain: B, Covers: []string{"accepted", "rejected"}},
		{Func: "HC06_Shapes", Pkg: "encoding/wkt", Domain: B, Covers: []string{"accepted", "rejected"}},
	}, Explanation: "The real goyacc WKT parser, grammar actions, validators and layout stack executed on every token sequence up to the bound; the character-level lexer on arbitrary short strings.",
		Outside: []string{"token sequences longer than the bound", "arbitrary byte strings longer than the character-level bound (covered only by composition: lexer step total + parser total on tokens)"}})
	add(CheckSpec{Property: "C17", Harnesses: []HarnessSpec{
		{Func: "HC17_Measures", Domain: B, Covers: []string{"end"}},
		{Func: "HC17_Codecs", Domain: B, Covers: []string{"end"}},
		{Func: "HC17_Orientation", Domain: X, RoundModel: true, DeltaModel: true, Covers: []string{"end"}},
	}, Explanation: "Write monitor of the executor over frozen arguments and package-level variables on every path of the listed entry points; a function that writes only to memory it allocated itself is deterministic and race free under concurrent calls (non-interference).",
		Outside: []string{"interleavings are not explored (replaced by the non-interference argument); sync-using internals of fmt/strconv are trusted", "entry points not listed here are covered by the same monitors inside the harnesses of their own property"}})
	add(CheckSpec{Property: "C12", Harnesses: []HarnessSpec{
		{Func: "HC12_Classify", Pkg: "xy/lineintersector", Domain: X, Covers: []string{"end", "proper"}},
	}, Explanation: "RobustLineIntersector via LineIntersectsLine on integer-grid segment pairs: classification, endpoint copies and collinear overlaps against exact orientation-and-interval references.",
		Assumptions: []string{"summary: bigxy.OrientationIndex = sign of the exact determinant (C10)", "cut: lineintersector.intersection (proper crossing point) returns an arbitrary point"},
		Outside: []string{"accuracy of a computed proper-crossing point", "non-grid floats", "the non-robust strategy (harness HC12_NonRobust exists; not registered)"}})
	c14 := func(f string) HarnessSpec {
		return HarnessSpec{Func: f, Pkg: "xy", Domain: X, Covers: []string{"end"}}
	}
	add(CheckSpec{Property: "C14", Harnesses: []HarnessSpec{
		c14("HC14_SignedArea"), c14("HC14_RingDirection"), c14("HC14_PointCentroid"), c14("HC14_LineCentroid"), c14("HC14_PolygonCentroid"), c14("HC14_PolygonWithHole"),
	}, Explanation: "Signed area, ring direction and point/line/polygon centroids on integer-grid inputs against exact shoelace / mean references; equalities of rational functions by exact normalisation, sign facts by nlsat.",
		Assumptions: []string{"summary: bigxy.OrientationIndex = sign of the exact determinant (C10)"},
		Outside: []string{"to-within-rounding (claims are exact for SignedArea, ideal for centroids)", "polygons with holes, multi-polygons and the zero-area fallback", "rings with more vertices than the bound"}})
	add(CheckSpec{Property: "C18", Harnesses: []HarnessSpec{
		{Func: "HC18_WriteCoord", Pkg: "encoding/wkt", Domain: B, Covers: []string{"end"}},
		{Func: "HC18_Marshal", Pkg: "encoding/wkt", Domain: B, Covers: []string{"end"}},
	}, Explanation: "WKT encoder with a decimal-digit limit: strconv.FormatFloat replaced by a model returning an arbitrary digit string of the documented shape; the real trimming and builder code checked for every such string.",
		Assumptions: []string{"model: strconv.FormatFloat(x,'f',d,64) returns [-]D+.D{d} (D+ <= 3 digits here) within half a unit in the last place of x (the rounding itself is strconv's contract, not decided)"},
		Outside: []string{"|emitted - x| <= 0.5*10^-d (strconv's rounding)", "the GeoJSON encoder (reflect/encoding/json not encoded)", "integer parts longer than 3 digits"}})
	add(CheckSpec{Property: "C05", Harnesses: []HarnessSpec{
		{Func: "HC05_RoundTrip", Pkg: "encoding/wkt", Domain: B, Covers: []string{"end"}},
	}, Explanation: "wkt.Marshal followed by the real lexer, goyacc parser and grammar actions (wkt.Unmarshal) on every geometry tree of the bound, in five spellings of the text.",
		Assumptions: []string{"model: strconv.FormatFloat(x,'f',-1,64) / ParseFloat(s,64) satisfy the shortest-round-trip contract (placeholder digit strings stand for the formatted ordinates)"},
		Outside: []string{"an independent (non-library) WKT reader of the emitted text", "exponent / .5 / 5. number spellings, per-letter case mixes, bare multipoint members", "trees beyond the bound"}})
	add(CheckSpec{Property: "C19", Harnesses: []HarnessSpec{
		{Func: "HC19_BRecord", Pkg: "encoding/igc", Domain: B, Covers: []string{"accepted", "rejected"}},
		{Func: "HC19_IRecord", Pkg: "encoding/igc", Domain: B, Covers: []string{"accepted", "rejected"}},
	}, Explanation: "One inductive step of the IGC record parser (parseB, parseI) from an arbitrary state satisfying the extension-window invariant on an arbitrary line.",
		Assumptions: []string{"cut: time.Date returns the zero Time (dates are not part of this check)"},
		Outside: []string{"H records (regexp), the bufio/stream layer, dates and the two-digit year window, the encode->decode round trip"}})
	return m
}
