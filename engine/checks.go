package main

func checkSpecs() map[string]CheckSpec {
	m := map[string]CheckSpec{}
	add := func(c CheckSpec) { m[c.Property] = c }
	add(CheckSpec{Property: "C09", Harnesses: []HarnessSpec{
		{Func: "HC09_TotalMultiPolygon", Domain: DomainB, Covers: []string{"end"}},
	}, Explanation: "Bounded symbolic execution of Area/Length."})
	return m
}
