package main

// Engine: loading, init phase, work-list, workers, aggregation.

import (
	"fmt"
	"go/token"
	"go/types"
	"os"
	"path/filepath"
	"runtime/debug"
	"sort"
	"strings"
	"sync"
	"time"

	"golang.org/x/tools/go/packages"
	"golang.org/x/tools/go/ssa"
	"golang.org/x/tools/go/ssa/ssautil"
)

const (
	tokenMUL = token.MUL
	tokenADD = token.ADD
	tokenSUB = token.SUB
	tokenQUO = token.QUO
)

const repoMod = "github.com/twpayne/go-geom"
const zzPrefix = repoMod + "/internal/zzverif"

type Config struct {
	Property             string
	Tier                 string
	Domain               Domain
	MaxSteps             int
	MaxBackEdge          int
	MaxLen               int
	RoundModel           bool
	NonFiniteIsViolation bool
	RealInputs           bool
	DeltaModel           bool
	IntInputs            bool
	NoPrune              bool
	BugHunt              bool
	Workers              int
	TimeoutMs            int
	Solver               SolverKind
	Seed                 int64
	MaxPaths             int
	Verbose              bool
	SmtLog               string
}

type Engine struct {
	cfg           Config
	prog          *ssa.Program
	pkgs          map[string]*ssa.Package
	globals       map[*ssa.Global]*Object
	finfos        map[*ssa.Function]*funcInfo
	methMu        sync.Mutex
	sizes         types.Sizes
	opaqueErrType types.Type
	initCtx       *TermCtx
	initObjs      int
	initOK        map[string]bool
	initRoots     []string
	initDomain    Domain
	fnameOnce     sync.Once
	fnames        map[string]bool

	mu       sync.Mutex
	cond     *sync.Cond
	work     [][]Decision
	inflight int
	stop     bool
	abortMsg string

	stats *HarnessStats
}

type HarnessStats struct {
	Name                             string
	Domain                           string
	Paths, NonTrivial                int
	Obligations, Discharged, Trivial int
	SymbolicAsserts                  int
	UnknownBranches                  int
	UFOps, IdealOps, IdealCmps       int
	RoundedOps                       int
	EnclosedOps                      int
	Undecided                        int
	PermittedPanics                  int
	Sat, Unsat, Unknown              int
	SolverTime                       time.Duration
	Wall                             time.Duration
	Covers                           map[string]int
	Bounds                           map[string]int64
	Cuts                             map[string]int
	InexactSites                     map[string]int
	Ends                             map[string]int
	Funcs                            map[string]bool
	Replaced                         map[string]bool
	Violations                       map[string]*Violation
	Samples                          []map[string]interface{}
	MaxSteps                         int
}

func (e *Engine) isRepoPkg(path string) bool {
	return strings.HasPrefix(path, repoMod) && !strings.HasPrefix(path, zzPrefix)
}

func (e *Engine) isHarnessFn(fn *ssa.Function) bool {
	for fn.Parent() != nil {
		fn = fn.Parent()
	}
	if fn.Pkg != nil && strings.HasPrefix(fn.Pkg.Pkg.Path(), zzPrefix) {
		return true
	}
	p := e.prog.Fset.Position(fn.Pos())
	return strings.HasPrefix(filepath.Base(p.Filename), "zz_verif_")
}

var stdInitOK = []string{
	"io", "unicode", "unicode/utf8", "strings", "bytes", "strconv", "math", "math/bits",
	"sort", "slices", "bufio", "encoding/binary", "encoding/hex", "cmp", "internal/bytealg",
	"internal/stringslite", "unicode/utf16", "internal/byteorder", "iter", "internal/itoa",
}

// overlayFiles builds the go/packages overlay from /verif sources.
func overlayFiles(verif string) (map[string][]byte, []string, error) {
	ov := map[string][]byte{}
	var pkgs []string
	add := func(srcGlob, dstDir, prefix string) error {
		files, _ := filepath.Glob(srcGlob)
		for _, f := range files {
			b, err := os.ReadFile(f)
			if err != nil {
				return err
			}
			ov[filepath.Join(dstDir, prefix+filepath.Base(f))] = b
		}
		return nil
	}
	if err := add(filepath.Join(verif, "sym", "*.go"), "/repo/internal/zzverif/sym", ""); err != nil {
		return nil, nil, err
	}
	if err := add(filepath.Join(verif, "harness", "*.go"), "/repo/internal/zzverif/h", ""); err != nil {
		return nil, nil, err
	}
	pkgs = append(pkgs, zzPrefix+"/h")
	// in-package harnesses: harness/inpkg/<dir with __ for />/*.go
	dirs, _ := filepath.Glob(filepath.Join(verif, "harness", "inpkg", "*"))
	for _, d := range dirs {
		rel := strings.ReplaceAll(filepath.Base(d), "__", "/")
		dst := "/repo"
		p := repoMod
		if rel != "root" {
			dst = filepath.Join("/repo", rel)
			p = repoMod + "/" + rel
		}
		if err := add(filepath.Join(d, "*.go"), dst, "zz_verif_"); err != nil {
			return nil, nil, err
		}
		pkgs = append(pkgs, p)
	}
	return ov, pkgs, nil
}

func LoadEngine(cfg Config, verif string) (*Engine, error) {
	ov, pats, err := overlayFiles(verif)
	if err != nil {
		return nil, err
	}
	pcfg := &packages.Config{
		Mode:    packages.LoadAllSyntax,
		Dir:     "/repo",
		Overlay: ov,
		Env:     append(os.Environ(), "GOFLAGS=-mod=mod", "GOPROXY=off", "GOSUMDB=off", "GOTOOLCHAIN=local", "CGO_ENABLED=0"),
	}
	lp, err := packages.Load(pcfg, pats...)
	if err != nil {
		return nil, err
	}
	nerr := 0
	packages.Visit(lp, nil, func(p *packages.Package) {
		for _, e := range p.Errors {
			fmt.Fprintln(os.Stderr, "load error:", e)
			nerr++
		}
	})
	if nerr > 0 {
		return nil, fmt.Errorf("%d package load errors", nerr)
	}
	prog, _ := ssautil.AllPackages(lp, ssa.InstantiateGenerics)
	prog.Build()
	e := &Engine{cfg: cfg, prog: prog, pkgs: map[string]*ssa.Package{}, globals: map[*ssa.Global]*Object{},
		finfos: map[*ssa.Function]*funcInfo{}, sizes: types.SizesFor("gc", "amd64"), initOK: map[string]bool{}}
	e.cond = sync.NewCond(&e.mu)
	for _, p := range prog.AllPackages() {
		e.pkgs[p.Pkg.Path()] = p
	}
	// opaque error type: a fresh named type nobody can assert to
	tn := types.NewTypeName(token.NoPos, nil, "gosym.opaqueError", nil)
	e.opaqueErrType = types.NewNamed(tn, types.NewStruct(nil, nil), nil)
	for _, p := range stdInitOK {
		e.initOK[p] = true
	}
	for path := range e.pkgs {
		if strings.HasPrefix(path, repoMod) {
			e.initOK[path] = true
		}
	}
	return e, nil
}

// runInit executes package initialisers concretely, once.
func (e *Engine) runInit(roots []string) (err error) {
	e.initCtx = NewTermCtx()
	e.initDomain = e.cfg.Domain
	e.globals = map[*ssa.Global]*Object{}
	s := &State{eng: e, ctx: e.initCtx, initPhase: true, overlay: map[*Object]*Object{}, backedges: map[*ssa.BasicBlock]int{}, finfo: map[*Term]*FInfo{}, nonNaN: map[*Term]bool{}, keyMemo: map[*Term]*Term{}}
	s.run = &PathRun{inputNames: map[string]bool{}, kInputs: map[string]bool{}, covers: map[string]bool{}, tags: map[string]bool{}, bounds: map[string]int64{}}
	// globals of initialisable packages
	var paths []string
	for path := range e.pkgs {
		if e.initOK[path] {
			paths = append(paths, path)
		}
	}
	sort.Strings(paths)
	defer func() {
		if r := recover(); r != nil {
			switch x := r.(type) {
			case abortErr:
				err = fmt.Errorf("init phase: %s (at %s)", x.msg, s.stack())
			case pathEnd:
				err = fmt.Errorf("init phase ended: %s", x.reason)
			default:
				err = fmt.Errorf("init phase: engine panic: %v\n%s", r, debug.Stack())
			}
		}
	}()
	// zero-valued globals for packages whose init is not run but whose flags are read
	for _, zp := range []string{"internal/cpu", "internal/godebug", "errors", "time"} {
		if e.pkgs[zp] != nil && !e.initOK[zp] {
			paths = append(paths, zp)
		}
	}
	for _, path := range paths {
		p := e.pkgs[path]
		var names []string
		for n := range p.Members {
			names = append(names, n)
		}
		sort.Strings(names)
		for _, n := range names {
			if g, ok := p.Members[n].(*ssa.Global); ok {
				e.globals[g] = s.newObject(s.zero(g.Type().(*types.Pointer).Elem()), g.String())
			}
		}
	}
	saveSteps, saveBE := e.cfg.MaxSteps, e.cfg.MaxBackEdge
	e.cfg.MaxSteps, e.cfg.MaxBackEdge = 200_000_000, 10_000_000
	for _, r := range roots {
		p := e.pkgs[r]
		if p == nil {
			return fmt.Errorf("package %s not loaded", r)
		}
		s.callFunction(p.Func("init"), nil, nil)
	}
	e.cfg.MaxSteps, e.cfg.MaxBackEdge = saveSteps, saveBE
	e.initObjs = s.nextObj
	return nil
}

func (e *Engine) push(p []Decision) {
	e.mu.Lock()
	e.work = append(e.work, p)
	e.mu.Unlock()
	e.cond.Signal()
}

func (e *Engine) pop() ([]Decision, bool) {
	e.mu.Lock()
	defer e.mu.Unlock()
	for {
		if e.stop {
			return nil, false
		}
		if n := len(e.work); n > 0 {
			p := e.work[n-1]
			e.work = e.work[:n-1]
			e.inflight++
			return p, true
		}
		if e.inflight == 0 {
			e.cond.Broadcast()
			return nil, false
		}
		e.cond.Wait()
	}
}

func (e *Engine) done() {
	e.mu.Lock()
	e.inflight--
	if e.inflight == 0 && len(e.work) == 0 {
		e.cond.Broadcast()
	}
	e.mu.Unlock()
}

func (e *Engine) abort(msg string) {
	e.mu.Lock()
	if e.abortMsg == "" {
		e.abortMsg = msg
	}
	e.stop = true
	e.mu.Unlock()
	e.cond.Broadcast()
}

func (e *Engine) funcExists(name string) bool {
	e.fnameOnce.Do(func() {
		e.fnames = map[string]bool{}
		for fn := range ssautil.AllFunctions(e.prog) {
			e.fnames[fn.String()] = true
		}
	})
	return e.fnames[name]
}

// ---- monitors ----

func (e *Engine) noteFunc(s *State, fi *funcInfo) {
	if s.funcs == nil {
		s.funcs = map[string]bool{}
	}
	s.funcs[fi.name] = true
}

func (s *State) inRepoCode() bool {
	for f := s.frame; f != nil; f = f.parent {
		if f.info.isRepo && !s.eng.isHarnessFn(f.fn) {
			return true
		}
	}
	return false
}

func (e *Engine) noteWrite(s *State, o *Object) {
	if s.initPhase || o == nil {
		return
	}
	if s.frozenObjs != nil && s.frozenObjs[o] && s.inRepoCode() {
		e.frozenWrite(s, "caller-owned memory")
	}
	if o.global && s.inRepoCode() {
		s.definiteViolation("global-write", "write to package-level variable "+o.site)
	}
}

func (e *Engine) frozenWrite(s *State, what string) {
	s.definiteViolation("frozen-write", "write to "+what)
}

func (e *Engine) noteGlobalMapWrite(s *State, m *MapV) {
	if s.inRepoCode() {
		s.definiteViolation("global-write", "write to package-level map")
	}
}

// definiteViolation records a violation that happens on every input of the current path (path continues).
func (s *State) definiteViolation(kind, label string) {
	if s.replaying() {
		return
	}
	r := s.run
	r.obligations++
	res := s.check(nil, true)
	if res == Sat {
		v := s.newViolation(kind, label, "")
		v.Inputs, v.Order = s.model()
		r.solver.PopScope()
		r.violations = append(r.violations, v)
	} else if res == Unknown {
		panic(abortf("solver unknown on path feasibility at %s violation", kind))
	}
}

func (e *Engine) noteAlloc(s *State, f *Frame, n *Term) {
	if s.allocLimit == nil || s.initPhase {
		return
	}
	if !f.info.isRepo || e.isHarnessFn(f.fn) {
		return
	}
	ok := s.ctx.BVSle(n, s.allocLimit)
	if ok.IsTrue() {
		s.run.obligations++
		s.run.discharged++
		s.run.trivial++
		return
	}
	// prefer a counterexample with a very large count: it is what the native replay can observe
	if !s.replaying() {
		big := s.ctx.BVSlt(s.ctx.BVConst(1<<24, 64), n)
		if s.check(big, false) == Sat {
			s.checkCond(s.ctx.Not(big), "alloc", "allocation count exceeds configured limit")
			if s.check(ok, false) == Unsat {
				panic(pathEnd{"alloc on every remaining input"})
			}
			s.assumeRaw(ok)
			return
		}
	}
	s.checkCond(ok, "alloc", "allocation count exceeds configured limit")
}

func (e *Engine) noteAllocAppend(s *State, n int) {}

// ---- running a harness ----

func (e *Engine) findHarness(spec HarnessSpec) (*ssa.Function, error) {
	pkgPath := zzPrefix + "/h"
	if spec.Pkg != "" {
		if spec.Pkg == "root" {
			pkgPath = repoMod
		} else {
			pkgPath = repoMod + "/" + spec.Pkg
		}
	}
	p := e.pkgs[pkgPath]
	if p == nil {
		return nil, fmt.Errorf("harness package %s not loaded", pkgPath)
	}
	fn := p.Func(spec.Func)
	if fn == nil {
		return nil, fmt.Errorf("harness %s.%s not found", pkgPath, spec.Func)
	}
	return fn, nil
}

func (e *Engine) RunHarness(spec HarnessSpec) (*HarnessStats, error) {
	fn, err := e.findHarness(spec)
	if err != nil {
		return nil, err
	}
	e.cfg.Domain = spec.Domain
	if e.initDomain != spec.Domain {
		// package-level float variables are represented per domain: re-run the initialisers
		if err := e.runInit(e.initRoots); err != nil {
			return nil, err
		}
	}
	e.cfg.RoundModel = spec.RoundModel
	e.cfg.NonFiniteIsViolation = spec.NonFinite
	e.cfg.RealInputs = spec.RealInputs
	e.cfg.DeltaModel = spec.DeltaModel
	e.cfg.IntInputs = spec.IntInputs
	e.cfg.NoPrune = spec.NoPrune
	e.cfg.BugHunt = spec.BugHunt
	if spec.MaxSteps > 0 {
		e.cfg.MaxSteps = spec.MaxSteps
	}
	st := &HarnessStats{Name: spec.Func, Domain: spec.Domain.String(), Covers: map[string]int{}, Bounds: map[string]int64{}, Cuts: map[string]int{},
		InexactSites: map[string]int{}, Ends: map[string]int{}, Funcs: map[string]bool{}, Violations: map[string]*Violation{}}
	e.stats = st
	e.work = [][]Decision{{}}
	e.inflight = 0
	e.stop = false
	t0 := time.Now()
	var wg sync.WaitGroup
	for w := 0; w < e.cfg.Workers; w++ {
		wg.Add(1)
		go func(w int) {
			defer wg.Done()
			e.worker(w, fn, spec)
		}(w)
	}
	wg.Wait()
	st.Wall = time.Since(t0)
	if e.abortMsg != "" {
		return st, fmt.Errorf("%s", e.abortMsg)
	}
	return st, nil
}

func (e *Engine) worker(w int, fn *ssa.Function, spec HarnessSpec) {
	var logw *os.File
	if e.cfg.SmtLog != "" {
		logw, _ = os.Create(fmt.Sprintf("%s.%s.%d.smt2", e.cfg.SmtLog, spec.Func, w))
		defer logw.Close()
	}
	var solver *Solver
	var err error
	if logw != nil {
		solver, err = StartSolver(e.cfg.Solver, e.cfg.TimeoutMs, logw)
	} else {
		solver, err = StartSolver(e.cfg.Solver, e.cfg.TimeoutMs, nil)
	}
	if err != nil {
		e.abort("cannot start solver: " + err.Error())
		return
	}
	solver.nlsat = spec.Domain == DomainX
	if spec.IntInputs {
		solver.tactic = "qfnia" // bounded integers: z3's nla2bv/bit-blasting portfolio
	}
	defer func() {
		e.mu.Lock()
		e.stats.Sat += solver.nSat
		e.stats.Unsat += solver.nUnsat
		e.stats.Unknown += solver.nUnknown
		e.stats.SolverTime += solver.solveTime
		e.mu.Unlock()
		solver.Close()
	}()
	ctx := e.initCtx.Clone()
	for {
		prefix, ok := e.pop()
		if !ok {
			return
		}
		if len(ctx.tab) > 1_500_000 {
			ctx = e.initCtx.Clone()
		}
		e.runPath(ctx, solver, fn, spec, prefix)
		e.done()
	}
}

func (c *TermCtx) Clone() *TermCtx {
	n := &TermCtx{tab: make(map[string]*Term, len(c.tab)*2), nextID: c.nextID, tt: c.tt, ff: c.ff, ufs: map[string]ufDecl{}}
	for k, v := range c.tab {
		n.tab[k] = v
	}
	for k, v := range c.ufs {
		n.ufs[k] = v
	}
	n.ufList = append(n.ufList, c.ufList...)
	return n
}

func (e *Engine) runPath(ctx *TermCtx, solver *Solver, fn *ssa.Function, spec HarnessSpec, prefix []Decision) {
	solver.Reset()
	run := &PathRun{prefix: prefix, solver: solver, inputNames: map[string]bool{}, kInputs: map[string]bool{}, covers: map[string]bool{}, tags: map[string]bool{}, bounds: map[string]int64{}, harness: spec.Func}
	s := &State{eng: e, ctx: ctx, run: run, overlay: map[*Object]*Object{}, backedges: map[*ssa.BasicBlock]int{}, finfo: map[*Term]*FInfo{}, nextObj: e.initObjs, nonNaN: map[*Term]bool{}, keyMemo: map[*Term]*Term{}}
	func() {
		defer func() {
			if r := recover(); r != nil {
				switch x := r.(type) {
				case pathEnd:
					run.ended = x.reason
				case abortErr:
					run.ended = "abort"
					e.abort(fmt.Sprintf("INCONCLUSIVE %s: %s (at %s)", spec.Func, x.msg, s.stack()))
				default:
					run.ended = "abort"
					e.abort(fmt.Sprintf("INCONCLUSIVE %s: engine panic: %v at %s\n%s", spec.Func, r, s.site(), debug.Stack()))
				}
			}
		}()
		s.callFunction(fn, nil, nil)
		run.ended = "returned"
	}()
	// aggregate
	e.mu.Lock()
	defer e.mu.Unlock()
	st := e.stats
	st.Paths++
	if run.symbolicAsserts > 0 {
		st.NonTrivial++
	}
	st.Obligations += run.obligations
	st.Discharged += run.discharged
	st.Trivial += run.trivial
	st.SymbolicAsserts += run.symbolicAsserts
	st.UnknownBranches += run.unknownBranches
	st.UFOps += run.ufOps
	st.IdealOps += run.idealOps
	st.IdealCmps += run.idealCmps
	st.RoundedOps += run.roundedOps
	st.EnclosedOps += run.enclosedOps
	st.Undecided += run.undecided
	st.PermittedPanics += run.permittedPanics
	if s.steps > st.MaxSteps {
		st.MaxSteps = s.steps
	}
	for k := range run.covers {
		st.Covers[k]++
	}
	for k, v := range run.bounds {
		if v > st.Bounds[k] {
			st.Bounds[k] = v
		}
	}
	for k, v := range run.cuts {
		st.Cuts[k] += v
	}
	for k, v := range run.inexactSites {
		st.InexactSites[k] += v
	}
	end := run.ended
	if i := strings.Index(end, ":"); i > 0 && strings.HasPrefix(end, "panic") {
		end = "panic"
	}
	st.Ends[end]++
	for k := range s.funcs {
		st.Funcs[k] = true
	}
	for k := range run.replaced {
		if st.Replaced == nil {
			st.Replaced = map[string]bool{}
		}
		st.Replaced[k] = true
	}
	for _, v := range run.violations {
		sig := v.Sig()
		if old, ok := st.Violations[sig]; ok {
			old.Count++
		} else {
			st.Violations[sig] = v
		}
	}
	if len(st.Samples) < 4 && run.ended == "returned" && (st.Paths%7 == 1 || len(st.Samples) == 0) {
		smp := map[string]interface{}{"harness": spec.Func, "decisions": len(run.taken), "inputs": len(run.inputs), "obligations": run.obligations, "steps": s.steps}
		var cv []string
		for k := range run.covers {
			cv = append(cv, k)
		}
		sort.Strings(cv)
		smp["covers"] = cv
		var names []string
		for i, in := range run.inputs {
			if i >= 12 {
				names = append(names, "...")
				break
			}
			names = append(names, in.Name)
		}
		smp["symbolic_inputs"] = names
		if n := len(run.pc); n > 0 {
			str := run.pc[n-1].String()
			if len(str) > 300 {
				str = str[:300] + "..."
			}
			smp["last_path_constraint"] = str
		}
		st.Samples = append(st.Samples, smp)
	}
	if e.cfg.MaxPaths > 0 && st.Paths >= e.cfg.MaxPaths && !e.stop {
		e.stop = true
		e.abortMsg = fmt.Sprintf("INCONCLUSIVE %s: path budget %d exceeded", spec.Func, e.cfg.MaxPaths)
		e.cond.Broadcast()
	}
}
