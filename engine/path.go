package main

// Path state: decisions, path condition, obligations.

import (
	"fmt"
	"sort"
	"strings"
)

type Decision struct {
	Kind byte // 'b' branch, 'v' enumerated value, 'x' exclusion list (only last in a prefix)
	B    bool
	V    int64
	Ex   []int64
}

type Violation struct {
	Harness string
	Kind    string // assert | panic | nonfinite | frozen-write | alloc | global-write
	Label   string
	Site    string // innermost repo function
	Where   string // instruction position
	Detail  string
	Tags    []string
	Inputs  map[string]string
	Order   []string
	FloatInputs []string // names of float64 bit-pattern inputs (domain B); used to concretise UF models natively
	UFOps   int
	XDomain bool
	Count   int
	Known   string // matching known-finding line, if any
	Replay  string
	Reproduced bool
	ReplayOut  string
}

func (v *Violation) Sig() string {
	return v.Harness + "|" + v.Kind + "|" + v.Label + "|" + v.Site + "|" + strings.Join(v.Tags, ",")
}

type PathRun struct {
	prefix []Decision
	pos    int
	taken  []Decision
	pc     []*Term
	sent   int
	solver *Solver

	inputs     []*Term
	inputNames map[string]bool
	kInputs    map[string]bool
	floatInputs map[string]bool
	covers     map[string]bool
	tags       map[string]bool
	bounds     map[string]int64
	cuts       map[string]int
	replaced   map[string]bool
	fixed      map[string]string
	fixedOrder []string

	obligations, discharged, trivial int
	symbolicAsserts                  int
	unknownBranches                  int
	ufOps, idealOps, idealCmps       int
	roundedOps                       int
	enclosedOps                      int
	undecided                        int
	inexactSites                     map[string]int
	permittedPanics                  int
	violations                       []*Violation
	ended                            string
	harness                          string
}

func (r *PathRun) cut(reason string) {
	if r.cuts == nil {
		r.cuts = map[string]int{}
	}
	r.cuts[reason]++
}

func (r *PathRun) noteInexact(site string) {
	if r.inexactSites == nil {
		r.inexactSites = map[string]int{}
	}
	r.inexactSites[site]++
}

func (s *State) replaying() bool { return s.run.pos < len(s.run.prefix) }

func (s *State) assumeRaw(t *Term) {
	if t.IsTrue() {
		return
	}
	s.run.pc = append(s.run.pc, t)
}

func (s *State) flush() {
	r := s.run
	for r.sent < len(r.pc) {
		r.solver.Assert(s.ctx, r.pc[r.sent])
		r.sent++
	}
}

func (s *State) check(extra *Term, keep bool) SatResult {
	s.flush()
	res := s.run.solver.Check(s.ctx, extra, keep)
	if s.run.solver.dead {
		panic(abortf("solver process died"))
	}
	return res
}

// assume adds a constraint that the harness or a model relies on; ends the path if infeasible.
func (s *State) assume(t *Term) {
	if t.IsTrue() {
		return
	}
	if t.IsFalse() {
		panic(pathEnd{"assumption false"})
	}
	if s.replaying() {
		s.assumeRaw(t)
		return
	}
	if s.check(t, false) == Unsat {
		panic(pathEnd{"assumption infeasible"})
	}
	s.assumeRaw(t)
}

func (s *State) assumeCut(ok *Term, reason string) {
	if ok.IsTrue() {
		return
	}
	if s.replaying() {
		s.assumeRaw(ok)
		return
	}
	if s.check(s.ctx.Not(ok), false) != Unsat {
		s.run.cut(reason)
	}
	if s.check(ok, false) == Unsat {
		panic(pathEnd{"cut: " + reason})
	}
	s.assumeRaw(ok)
}

// branch decides a symbolic condition; forks when both sides are feasible.
func (s *State) branch(cond *Term) bool {
	if cond.IsConst() {
		return cond.U == 1
	}
	r := s.run
	if r.pos < len(r.prefix) {
		d := r.prefix[r.pos]
		if d.Kind != 'b' {
			panic(abortf("internal: decision kind mismatch at %d (want branch, have %c) at %s", r.pos, d.Kind, s.site()))
		}
		r.pos++
		r.taken = append(r.taken, d)
		if s.eng.cfg.NoPrune && s.mentionsRealVar(cond) {
			return d.B // outcome havocked (sound over-approximation; keeps the query in pure integer arithmetic)
		}
		if d.B {
			s.assumeRaw(cond)
		} else {
			s.assumeRaw(s.ctx.Not(cond))
		}
		return d.B
	}
	ncond := s.ctx.Not(cond)
	if s.eng.cfg.NoPrune {
		// bug-hunting mode: both sides are taken without asking the solver (infeasible paths end at
		// their first obligation, whose query carries the whole path condition)
		sib := make([]Decision, len(r.taken)+1)
		copy(sib, r.taken)
		sib[len(r.taken)] = Decision{Kind: 'b', B: false}
		s.eng.push(sib)
		r.taken = append(r.taken, Decision{Kind: 'b', B: true})
		r.pos++
		if !s.mentionsRealVar(cond) {
			s.assumeRaw(cond)
		}
		return true
	}
	r1 := s.check(cond, false)
	if r1 == Unsat {
		r.taken = append(r.taken, Decision{Kind: 'b', B: false})
		r.pos++
		s.assumeRaw(ncond)
		return false
	}
	r2 := s.check(ncond, false)
	if r1 == Unknown || r2 == Unknown {
		r.unknownBranches++
	}
	if r2 == Unsat {
		r.taken = append(r.taken, Decision{Kind: 'b', B: true})
		r.pos++
		s.assumeRaw(cond)
		return true
	}
	// both feasible: fork
	sib := make([]Decision, len(r.taken)+1)
	copy(sib, r.taken)
	sib[len(r.taken)] = Decision{Kind: 'b', B: false}
	s.eng.push(sib)
	r.taken = append(r.taken, Decision{Kind: 'b', B: true})
	r.pos++
	s.assumeRaw(cond)
	return true
}

// concretize enumerates the feasible values of a BV term (one path per value).
func (s *State) concretize(t *Term) int64 {
	if t.IsConst() {
		return sext(t.U, t.Sort.W)
	}
	r := s.run
	c := s.ctx
	var excluded []int64
	if r.pos < len(r.prefix) {
		d := r.prefix[r.pos]
		switch d.Kind {
		case 'v':
			r.pos++
			r.taken = append(r.taken, d)
			s.assumeRaw(c.Eq(t, c.BVConst(uint64(d.V), t.Sort.W)))
			return d.V
		case 'x':
			if r.pos != len(r.prefix)-1 {
				panic(abortf("internal: exclusion decision not last"))
			}
			excluded = d.Ex
			for _, v := range excluded {
				s.assumeRaw(c.Not(c.Eq(t, c.BVConst(uint64(v), t.Sort.W))))
			}
			// fallthrough to solving; position consumed below
		default:
			panic(abortf("internal: decision kind mismatch at %d (want value, have %c) at %s", r.pos, d.Kind, s.site()))
		}
	}
	res := s.check(nil, true)
	if res == Unsat {
		panic(pathEnd{"enumeration exhausted"})
	}
	if res == Unknown {
		panic(abortf("solver unknown while enumerating values at %s", s.site()))
	}
	mv := r.solver.GetValues(c, []*Term{t})
	r.solver.PopScope()
	m, ok := mv[t]
	if !ok || !m.IsBV {
		panic(abortf("could not read model value while enumerating at %s", s.site()))
	}
	v := sext(m.U, t.Sort.W)
	if len(excluded) > 200 {
		panic(abortf("unwind: more than 200 values enumerated for one term at %s", s.site()))
	}
	sib := make([]Decision, len(r.taken)+1)
	copy(sib, r.taken)
	ex := make([]int64, len(excluded)+1)
	copy(ex, excluded)
	ex[len(excluded)] = v
	sib[len(r.taken)] = Decision{Kind: 'x', Ex: ex}
	s.eng.push(sib)
	r.taken = append(r.taken, Decision{Kind: 'v', V: v})
	r.pos++
	s.assumeRaw(c.Eq(t, c.BVConst(uint64(v), t.Sort.W)))
	return v
}

func (s *State) model() (map[string]string, []string) {
	r := s.run
	mv := r.solver.GetValues(s.ctx, r.inputs)
	out := map[string]string{}
	var order []string
	for _, n := range r.fixedOrder {
		out[n] = r.fixed[n]
		order = append(order, n)
	}
	for _, in := range r.inputs {
		order = append(order, in.Name)
		if m, ok := mv[in]; ok {
			switch {
			case m.IsBool:
				if m.B {
					out[in.Name] = "1"
				} else {
					out[in.Name] = "0"
				}
			case m.IsBV:
				out[in.Name] = fmt.Sprintf("0x%x", m.U)
			default:
				if r.kInputs[in.Name] && m.Q != nil && m.Q.IsInt() {
					out[in.Name] = fmt.Sprintf("0x%x", kBits(m.Q.Num()))
				} else {
					out[in.Name] = m.Q.RatString()
				}
			}
		}
	}
	return out, order
}

func (s *State) newViolation(kind, label, detail string) *Violation {
	v := &Violation{Harness: s.run.harness, Kind: kind, Label: label, Site: s.repoSite(), Where: s.site(), Detail: detail, Count: 1}
	for t := range s.run.tags {
		v.Tags = append(v.Tags, t)
	}
	sort.Strings(v.Tags)
	for n := range s.run.floatInputs {
		v.FloatInputs = append(v.FloatInputs, n)
	}
	sort.Strings(v.FloatInputs)
	v.UFOps = s.run.ufOps
	v.XDomain = s.eng.cfg.Domain == DomainX
	return v
}

// checkCond is a proof obligation: ok must hold on every input reaching this point.
func (s *State) checkCond(ok *Term, kind, label string) {
	r := s.run
	if s.replaying() {
		s.assumeRaw(ok)
		return
	}
	r.obligations++
	if ok.IsTrue() {
		r.discharged++
		r.trivial++
		return
	}
	permitted := kind == "panic" && s.mayPanic > 0
	if ok.IsFalse() {
		if permitted {
			r.permittedPanics++
			panic(pathEnd{"permitted panic"})
		}
		res := s.check(nil, true)
		if res == Sat {
			v := s.newViolation(kind, label, "")
			v.Inputs, v.Order = s.model()
			r.solver.PopScope()
			r.violations = append(r.violations, v)
		} else if res == Unknown {
			panic(abortf("solver unknown on path feasibility before definite %s %q", kind, label))
		}
		panic(pathEnd{"definite " + kind})
	}
	r.symbolicAsserts++
	res := s.check(s.ctx.Not(ok), true)
	switch res {
	case Sat:
		if permitted {
			r.solver.PopScope()
			r.permittedPanics++
		} else {
			v := s.newViolation(kind, label, "")
			v.Inputs, v.Order = s.model()
			r.solver.PopScope()
			r.violations = append(r.violations, v)
		}
		if s.check(ok, false) == Unsat {
			panic(pathEnd{kind + " on every remaining input"})
		}
	case Unknown:
		if s.eng.cfg.BugHunt {
			r.undecided++
		} else {
			panic(abortf("solver unknown on obligation %s %q at %s", kind, label, s.site()))
		}
	default:
		r.discharged++
	}
	s.assumeRaw(ok)
}

func (s *State) checkPanic(ok *Term, what string) {
	if ok.IsTrue() {
		return
	}
	s.checkCond(ok, "panic", what)
}

// panicReached: the program panics on every input of the current path.
func (s *State) panicReached(what, detail string) {
	r := s.run
	if s.initPhase {
		panic(abortf("panic during init: %s %s", what, detail))
	}
	if s.replaying() {
		panic(abortf("internal: definite panic %q while replaying a prefix at %s", what, s.site()))
	}
	r.obligations++
	if s.mayPanic > 0 {
		r.permittedPanics++
		panic(pathEnd{"permitted panic"})
	}
	res := s.check(nil, true)
	if res == Sat {
		v := s.newViolation("panic", what, detail)
		v.Inputs, v.Order = s.model()
		r.solver.PopScope()
		r.violations = append(r.violations, v)
	} else if res == Unknown {
		panic(abortf("solver unknown on path feasibility before panic %q", what))
	}
	panic(pathEnd{"panic: " + what})
}

// chooseFree forks over lo..hi without consulting the solver (the chosen variable is fresh and
// unconstrained, so every value is feasible).
func (s *State) chooseFree(lo, hi int64) int64 {
	r := s.run
	if r.pos < len(r.prefix) {
		d := r.prefix[r.pos]
		if d.Kind != 'v' {
			panic(abortf("internal: decision kind mismatch at %d (want free choice, have %c) at %s", r.pos, d.Kind, s.site()))
		}
		r.pos++
		r.taken = append(r.taken, d)
		return d.V
	}
	for v := hi; v > lo; v-- {
		sib := make([]Decision, len(r.taken)+1)
		copy(sib, r.taken)
		sib[len(r.taken)] = Decision{Kind: 'v', V: v}
		s.eng.push(sib)
	}
	r.taken = append(r.taken, Decision{Kind: 'v', V: lo})
	r.pos++
	return lo
}

// mentionsRealVar: the term contains a Real-sorted variable (an enclosure of an inexact float result).
func (s *State) mentionsRealVar(t *Term) bool {
	seen := map[*Term]bool{}
	var walk func(*Term) bool
	walk = func(x *Term) bool {
		if seen[x] {
			return false
		}
		seen[x] = true
		if x.Op == OpVar && x.Sort.K == KReal {
			return true
		}
		for _, a := range x.Args {
			if walk(a) {
				return true
			}
		}
		return false
	}
	return walk(t)
}
