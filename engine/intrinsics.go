package main

// Intrinsics: the sym.* harness API and models of assembly / environment functions.

import (
	"fmt"
	"go/token"
	"go/types"
	"math"
	"math/big"
	"strings"

	"golang.org/x/tools/go/ssa"
)

const symPkg = "github.com/twpayne/go-geom/internal/zzverif/sym"

type intrinsic func(s *State, fn *ssa.Function, args []Value) Value

var intrinsics = map[string]intrinsic{}

func reg(name string, h intrinsic) { intrinsics[name] = h }

func argStr(v Value) string {
	sv := v.(*StrV)
	if !sv.isConc {
		panic(abortf("intrinsic needs a concrete string"))
	}
	return sv.conc
}

func argInt(v Value) int64 {
	t := v.(*Term)
	if !t.IsConst() {
		panic(abortf("intrinsic needs a concrete integer"))
	}
	return sext(t.U, t.Sort.W)
}

func (s *State) newInput(name string, sort Sort) *Term {
	if s.run.inputNames[name] {
		panic(abortf("duplicate symbolic input name %q", name))
	}
	s.run.inputNames[name] = true
	t := s.ctx.Var(name, sort)
	s.run.inputs = append(s.run.inputs, t)
	return t
}

// fixInput records an enumerated (solver-free) choice so that it appears in models/replay files.
func (s *State) fixInput(name, val string) {
	if s.run.inputNames[name] {
		panic(abortf("duplicate symbolic input name %q", name))
	}
	s.run.inputNames[name] = true
	if s.run.fixed == nil {
		s.run.fixed = map[string]string{}
	}
	s.run.fixed[name] = val
	s.run.fixedOrder = append(s.run.fixedOrder, name)
}

func sliceTerms(s *State, v Value) []*Term {
	sv := v.(SliceV)
	out := make([]*Term, sv.n)
	if sv.n > 0 {
		arr := s.resolve(sv.obj).val.(*ArrayV)
		for i := range out {
			out[i] = arr.e[sv.off+i].(*Term)
		}
	}
	return out
}

func init() {
	c64 := func(s *State, v int64) *Term { return s.ctx.BVConst(uint64(v), 64) }

	// ---- symbolic inputs ----
	reg(symPkg+".Int", func(s *State, fn *ssa.Function, a []Value) Value {
		t := s.newInput(argStr(a[0]), BV(64))
		lo, hi := a[1].(*Term), a[2].(*Term)
		s.assume(s.ctx.And(s.ctx.BVSle(lo, t), s.ctx.BVSle(t, hi)))
		return t
	})
	reg(symPkg+".Byte", func(s *State, fn *ssa.Function, a []Value) Value {
		return s.newInput(argStr(a[0]), BV(8))
	})
	reg(symPkg+".Uint32", func(s *State, fn *ssa.Function, a []Value) Value {
		return s.newInput(argStr(a[0]), BV(32))
	})
	reg(symPkg+".Uint64", func(s *State, fn *ssa.Function, a []Value) Value {
		return s.newInput(argStr(a[0]), BV(64))
	})
	reg(symPkg+".Bool", func(s *State, fn *ssa.Function, a []Value) Value {
		return s.newInput(argStr(a[0]), SBool)
	})
	reg(symPkg+".Float64Bits", func(s *State, fn *ssa.Function, a []Value) Value {
		if s.eng.cfg.Domain == DomainK {
			t := s.newInput(argStr(a[0]), SInt)
			s.run.kInputs[t.Name] = true
			lo := new(big.Int).Neg(kM)
			lo.Sub(lo, big.NewInt(1))
			s.assumeRaw(s.ctx.And(s.ctx.Le(s.ctx.IntConstBig(lo), t), s.ctx.Le(t, s.ctx.IntConstBig(kM))))
			return t
		}
		if s.eng.cfg.Domain != DomainB {
			panic(abortf("sym.Float64Bits outside domain B"))
		}
		t := s.newInput(argStr(a[0]), BV(64))
		if s.run.floatInputs == nil {
			s.run.floatInputs = map[string]bool{}
		}
		s.run.floatInputs[t.Name] = true
		if s.noNaNInputs {
			c := s.ctx
			s.assumeRaw(c.BVUle(c.BVAnd(t, c.BVConst(absMask, 64)), c.BVConst(expMask, 64)))
			s.nonNaN[t] = true
		}
		return t
	})
	reg(symPkg+".NoNaNInputs", func(s *State, fn *ssa.Function, a []Value) Value {
		s.noNaNInputs = true
		return nil
	})
	reg(symPkg+".Float64Grid", func(s *State, fn *ssa.Function, a []Value) Value {
		k := argInt(a[1])
		if s.eng.cfg.Domain != DomainX {
			panic(abortf("sym.Float64Grid outside domain X"))
		}
		lim := new(big.Int).Lsh(big.NewInt(1), uint(k))
		q := new(big.Rat).SetInt(lim)
		if s.run.floatInputs == nil {
			s.run.floatInputs = map[string]bool{}
		}
		s.run.floatInputs[argStr(a[0])] = true
		if s.eng.cfg.RealInputs {
			t := s.newInput(argStr(a[0]), SReal)
			s.assumeRaw(s.ctx.And(s.ctx.Le(s.ctx.RealConst(new(big.Rat).Neg(q)), t), s.ctx.Le(t, s.ctx.RealConst(q))))
			s.setInfo(t, &FInfo{exact: false, scale: -1, lo: new(big.Rat).Neg(q), hi: q})
			return t
		}
		if !s.eng.cfg.IntInputs {
			// relaxation: the solver sees an arbitrary real of the range (pure NRA, decided by nlsat); the
			// exactness bookkeeping still knows the value is an integer-valued float64 of that magnitude
			t := s.newInput(argStr(a[0]), SReal)
			s.assumeRaw(s.ctx.And(s.ctx.Le(s.ctx.RealConst(new(big.Rat).Neg(q)), t), s.ctx.Le(t, s.ctx.RealConst(q))))
			s.setInfo(t, &FInfo{exact: true, scale: 0, lo: new(big.Rat).Neg(q), hi: q})
			return t
		}
		t := s.newInput(argStr(a[0]), SInt)
		s.assumeRaw(s.ctx.And(s.ctx.Le(s.ctx.IntConstBig(new(big.Int).Neg(lim)), t), s.ctx.Le(t, s.ctx.IntConstBig(lim))))
		s.setInfo(t, &FInfo{exact: true, scale: 0, lo: new(big.Rat).Neg(q), hi: q})
		return t
	})
	reg(symPkg+".Float64Range", func(s *State, fn *ssa.Function, a []Value) Value {
		// integer-valued float in [lo,hi]
		lo, hi := argInt(a[1]), argInt(a[2])
		if s.eng.cfg.Domain != DomainX {
			panic(abortf("sym.Float64Range outside domain X"))
		}
		if s.eng.cfg.RealInputs {
			t := s.newInput(argStr(a[0]), SReal)
			s.assumeRaw(s.ctx.And(s.ctx.Le(s.ctx.RealConst(big.NewRat(lo, 1)), t), s.ctx.Le(t, s.ctx.RealConst(big.NewRat(hi, 1)))))
			s.setInfo(t, &FInfo{exact: false, scale: -1, lo: big.NewRat(lo, 1), hi: big.NewRat(hi, 1)})
			return t
		}
		if !s.eng.cfg.IntInputs {
			t := s.newInput(argStr(a[0]), SReal)
			s.assumeRaw(s.ctx.And(s.ctx.Le(s.ctx.RealConst(big.NewRat(lo, 1)), t), s.ctx.Le(t, s.ctx.RealConst(big.NewRat(hi, 1)))))
			s.setInfo(t, &FInfo{exact: true, scale: 0, lo: big.NewRat(lo, 1), hi: big.NewRat(hi, 1)})
			return t
		}
		t := s.newInput(argStr(a[0]), SInt)
		s.assumeRaw(s.ctx.And(s.ctx.Le(s.ctx.IntConst(lo), t), s.ctx.Le(t, s.ctx.IntConst(hi))))
		s.setInfo(t, &FInfo{exact: true, scale: 0, lo: big.NewRat(lo, 1), hi: big.NewRat(hi, 1)})
		return t
	})

	// solver-free forks over a fresh variable with a concrete range
	reg(symPkg+".Choose", func(s *State, fn *ssa.Function, a []Value) Value {
		lo, hi := argInt(a[1]), argInt(a[2])
		if hi < lo {
			panic(pathEnd{"empty choice"})
		}
		v := s.chooseFree(lo, hi)
		s.fixInput(argStr(a[0]), fmt.Sprintf("0x%x", uint64(v)))
		return c64(s, v)
	})
	reg(symPkg+".Flip", func(s *State, fn *ssa.Function, a []Value) Value {
		v := s.chooseFree(0, 1)
		s.fixInput(argStr(a[0]), fmt.Sprint(v))
		return s.ctx.Bool(v == 1)
	})

	// ---- assumptions / obligations ----
	reg(symPkg+".Assume", func(s *State, fn *ssa.Function, a []Value) Value {
		s.assume(a[0].(*Term))
		return nil
	})
	reg(symPkg+".Assert", func(s *State, fn *ssa.Function, a []Value) Value {
		s.checkCond(a[0].(*Term), "assert", argStr(a[1]))
		return nil
	})
	reg(symPkg+".Cover", func(s *State, fn *ssa.Function, a []Value) Value {
		s.run.covers[argStr(a[0])] = true
		return nil
	})
	reg(symPkg+".Tag", func(s *State, fn *ssa.Function, a []Value) Value {
		s.run.tags[argStr(a[0])] = true
		return nil
	})
	reg(symPkg+".Bound", func(s *State, fn *ssa.Function, a []Value) Value {
		s.run.bounds[argStr(a[0])] = argInt(a[1])
		return nil
	})
	reg(symPkg+".Thorough", func(s *State, fn *ssa.Function, a []Value) Value {
		return s.ctx.Bool(s.eng.cfg.Tier == "thorough")
	})
	reg(symPkg+".Pick", func(s *State, fn *ssa.Function, a []Value) Value {
		if s.eng.cfg.Tier == "thorough" {
			return a[1]
		}
		return a[0]
	})
	reg(symPkg+".Param", func(s *State, fn *ssa.Function, a []Value) Value {
		if v, ok := debugParams[argStr(a[0])]; ok {
			return c64(s, v)
		}
		return a[1]
	})
	reg(symPkg+".Replace", func(s *State, fn *ssa.Function, a []Value) Value {
		// Replace(name, f): calls to the function called name are redirected to the harness closure f
		// (a summary/stub; every use is listed in the evidence as an assumption of the run)
		iv := a[1].(Iface)
		cl, ok := iv.val.(*Closure)
		if !ok || cl == nil {
			panic(abortf("sym.Replace needs a function value"))
		}
		if s.replacements == nil {
			s.replacements = map[string]*Closure{}
		}
		name := argStr(a[0])
		if !s.eng.funcExists(name) {
			panic(abortf("sym.Replace: no function %q in the program (renamed or removed?)", name))
		}
		s.replacements[name] = cl
		if s.run.replaced == nil {
			s.run.replaced = map[string]bool{}
		}
		s.run.replaced[name] = true
		return nil
	})
	reg(symPkg+".Original", func(s *State, fn *ssa.Function, a []Value) Value {
		// Original(name) temporarily removes a replacement (used by summaries that fall back to the real code)
		delete(s.replacements, argStr(a[0]))
		return nil
	})
	reg(symPkg+".UFReal", func(s *State, fn *ssa.Function, a []Value) Value {
		name := argStr(a[0])
		args := sliceTerms(s, a[2])
		if s.eng.cfg.Domain == DomainX {
			// one fresh real per (function, syntactic argument tuple): functional consistency for identical
			// argument terms, no congruence beyond that (a sound over-approximation that keeps the queries in
			// pure real arithmetic for nlsat)
			key := name
			for _, t := range args {
				key += fmt.Sprintf(",%d", t.id)
			}
			if s.ufVars == nil {
				s.ufVars = map[string]*Term{}
			}
			if r, ok := s.ufVars[key]; ok {
				return r
			}
			s.fresh++
			r := s.ctx.Var(fmt.Sprintf("uf.%s!%d", name, s.fresh), SReal)
			s.ufVars[key] = r
			s.setInfo(r, &FInfo{exact: false, scale: -1})
			s.run.ufOps++
			return r
		}
		if s.eng.cfg.Domain == DomainB {
			s.run.ufOps++
			return s.ctx.UF("uf."+name, BV(64), args...)
		}
		panic(abortf("sym.UFReal in domain K"))
	})
	reg(symPkg+".Register", func(s *State, fn *ssa.Function, a []Value) Value { return s.ctx.True() })
	reg(symPkg+".Symbolic", func(s *State, fn *ssa.Function, a []Value) Value {
		return s.ctx.True()
	})
	reg(symPkg+".MayPanic", func(s *State, fn *ssa.Function, a []Value) Value {
		s.mayPanic++
		s.callValue(a[0], nil, nil)
		s.mayPanic--
		return nil
	})
	reg(symPkg+".Concretize", func(s *State, fn *ssa.Function, a []Value) Value {
		return c64(s, s.concretize(a[0].(*Term)))
	})

	// ---- non-forking combinators ----
	reg(symPkg+".And", func(s *State, fn *ssa.Function, a []Value) Value {
		return s.ctx.And(sliceTerms(s, a[0])...)
	})
	reg(symPkg+".Or", func(s *State, fn *ssa.Function, a []Value) Value {
		return s.ctx.Or(sliceTerms(s, a[0])...)
	})
	reg(symPkg+".Not", func(s *State, fn *ssa.Function, a []Value) Value {
		return s.ctx.Not(a[0].(*Term))
	})
	reg(symPkg+".Implies", func(s *State, fn *ssa.Function, a []Value) Value {
		return s.ctx.Implies(a[0].(*Term), a[1].(*Term))
	})
	ite := func(s *State, fn *ssa.Function, a []Value) Value {
		return s.ctx.Ite(a[0].(*Term), a[1].(*Term), a[2].(*Term))
	}
	reg(symPkg+".IteInt", ite)
	reg(symPkg+".IteF", func(s *State, fn *ssa.Function, a []Value) Value {
		r := s.ctx.Ite(a[0].(*Term), a[1].(*Term), a[2].(*Term))
		if s.eng.cfg.Domain == DomainX {
			s.joinInfo(r, a[1].(*Term), a[2].(*Term))
		}
		return r
	})
	reg(symPkg+".IteBool", ite)
	reg(symPkg+".SameBits", func(s *State, fn *ssa.Function, a []Value) Value {
		return s.ctx.Eq(a[0].(*Term), a[1].(*Term))
	})
	reg(symPkg+".EqInt", func(s *State, fn *ssa.Function, a []Value) Value {
		return s.ctx.Eq(a[0].(*Term), a[1].(*Term))
	})
	reg(symPkg+".FEq", func(s *State, fn *ssa.Function, a []Value) Value { // float ==, non-forking (same as ==)
		if s.eng.cfg.Domain == DomainK {
			return s.fbinop(token.EQL, a[0].(*Term), a[1].(*Term))
		}
		if s.eng.cfg.Domain == DomainB {
			return s.bEq(a[0].(*Term), a[1].(*Term))
		}
		return s.ctx.Eq(a[0].(*Term), a[1].(*Term))
	})
	reg(symPkg+".FLe", func(s *State, fn *ssa.Function, a []Value) Value {
		if s.eng.cfg.Domain == DomainK {
			return s.fbinop(token.LEQ, a[0].(*Term), a[1].(*Term))
		}
		if s.eng.cfg.Domain == DomainB {
			return s.ctx.Or(s.bLt(a[0].(*Term), a[1].(*Term)), s.bEq(a[0].(*Term), a[1].(*Term)))
		}
		return s.ctx.Le(a[0].(*Term), a[1].(*Term))
	})
	reg(symPkg+".FLt", func(s *State, fn *ssa.Function, a []Value) Value {
		if s.eng.cfg.Domain == DomainK {
			return s.fbinop(token.LSS, a[0].(*Term), a[1].(*Term))
		}
		if s.eng.cfg.Domain == DomainB {
			return s.bLt(a[0].(*Term), a[1].(*Term))
		}
		return s.ctx.Lt(a[0].(*Term), a[1].(*Term))
	})
	reg(symPkg+".IsNaN", func(s *State, fn *ssa.Function, a []Value) Value {
		if s.eng.cfg.Domain == DomainB {
			return s.bIsNaN(a[0].(*Term))
		}
		return s.ctx.False()
	})
	reg(symPkg+".IsExact", func(s *State, fn *ssa.Function, a []Value) Value {
		if s.eng.cfg.Domain == DomainB {
			return s.ctx.True()
		}
		return s.ctx.Bool(s.info(a[0].(*Term)).exact)
	})

	// ---- memory monitors ----
	reg(symPkg+".Freeze", func(s *State, fn *ssa.Function, a []Value) Value {
		seen := map[*Object]bool{}
		s.reach(a[0], seen, true)
		for o := range seen {
			s.frozen()[o] = true
		}
		return nil
	})
	reg(symPkg+".NoAlias", func(s *State, fn *ssa.Function, a []Value) Value {
		x, y := map[*Object]bool{}, map[*Object]bool{}
		s.reach(a[0], x, false)
		s.reach(a[1], y, false)
		for o := range x {
			if y[o] {
				return s.ctx.False()
			}
		}
		return s.ctx.True()
	})
	reg(symPkg+".CheckFrozen", func(s *State, fn *ssa.Function, a []Value) Value { return nil })
	reg(symPkg+".AllocLimit", func(s *State, fn *ssa.Function, a []Value) Value {
		// AllocLimit(n): every repo make() from now on must have length <= n
		s.allocLimit = a[0].(*Term)
		return nil
	})

	// ---- math ----
	reg("math.Float64bits", func(s *State, fn *ssa.Function, a []Value) Value {
		if s.eng.cfg.Domain != DomainB {
			panic(abortf("math.Float64bits in domain X"))
		}
		return a[0]
	})
	reg("math.Float64frombits", func(s *State, fn *ssa.Function, a []Value) Value {
		if s.eng.cfg.Domain != DomainB {
			t := a[0].(*Term)
			if t.IsConst() {
				return s.fconstFloat(math.Float64frombits(t.U))
			}
			panic(abortf("math.Float64frombits in domain X"))
		}
		return a[0]
	})
	reg("math.IsNaN", func(s *State, fn *ssa.Function, a []Value) Value {
		if s.eng.cfg.Domain == DomainB {
			return s.bIsNaN(a[0].(*Term))
		}
		return s.ctx.False()
	})
	reg("math.IsInf", func(s *State, fn *ssa.Function, a []Value) Value {
		if s.eng.cfg.Domain == DomainK {
			sg := argInt(a[1])
			c := s.ctx
			x := a[0].(*Term)
			pos := c.Eq(x, c.IntConstBig(kCode(math.Inf(1))))
			neg := c.Eq(x, c.IntConstBig(kCode(math.Inf(-1))))
			switch {
			case sg > 0:
				return pos
			case sg < 0:
				return neg
			}
			return c.Or(pos, neg)
		}
		if s.eng.cfg.Domain == DomainB {
			sg := a[1].(*Term)
			if !sg.IsConst() {
				panic(abortf("math.IsInf with symbolic sign"))
			}
			return s.bIsInf(a[0].(*Term), int(sext(sg.U, 64)))
		}
		return s.ctx.False()
	})
	reg("math.Inf", func(s *State, fn *ssa.Function, a []Value) Value {
		sg := argInt(a[0])
		if sg >= 0 {
			return s.fconstFloat(math.Inf(1))
		}
		return s.fconstFloat(math.Inf(-1))
	})
	reg("math.NaN", func(s *State, fn *ssa.Function, a []Value) Value {
		return s.fconstFloat(math.NaN())
	})
	reg("math.Abs", func(s *State, fn *ssa.Function, a []Value) Value { return s.fabs(a[0].(*Term)) })
	reg("math.Sqrt", func(s *State, fn *ssa.Function, a []Value) Value { return s.fsqrt(a[0].(*Term)) })
	reg("math.Min", func(s *State, fn *ssa.Function, a []Value) Value { return s.fmin(a[0].(*Term), a[1].(*Term)) })
	reg("math.Max", func(s *State, fn *ssa.Function, a []Value) Value { return s.fmax(a[0].(*Term), a[1].(*Term)) })
	reg("math.Signbit", func(s *State, fn *ssa.Function, a []Value) Value {
		if s.eng.cfg.Domain == DomainK {
			return s.ctx.Lt(a[0].(*Term), s.ctx.IntConst(0))
		}
		if s.eng.cfg.Domain == DomainB {
			return s.ctx.Eq(s.ctx.Extract(a[0].(*Term), 63, 63), s.ctx.BVConst(1, 1))
		}
		return s.ctx.Lt(a[0].(*Term), s.xzero(a[0].(*Term)))
	})
	reg("math.Copysign", func(s *State, fn *ssa.Function, a []Value) Value {
		if s.eng.cfg.Domain == DomainB {
			c := s.ctx
			return c.BVOr(c.BVAnd(a[0].(*Term), c.BVConst(absMask, 64)), c.BVAnd(a[1].(*Term), c.BVConst(signBit, 64)))
		}
		panic(abortf("math.Copysign in domain X"))
	})
	reg("math.Floor", func(s *State, fn *ssa.Function, a []Value) Value {
		x := a[0].(*Term)
		if s.eng.cfg.Domain == DomainB {
			if x.IsConst() {
				return s.ctx.BVConst(math.Float64bits(math.Floor(math.Float64frombits(x.U))), 64)
			}
			s.run.ufOps++
			return s.ctx.UF("f64.floor", BV(64), x)
		}
		return s.ctx.Floor(x)
	})
	reg("math.Trunc", func(s *State, fn *ssa.Function, a []Value) Value {
		x := a[0].(*Term)
		if s.eng.cfg.Domain == DomainB {
			if x.IsConst() {
				return s.ctx.BVConst(math.Float64bits(math.Trunc(math.Float64frombits(x.U))), 64)
			}
			s.run.ufOps++
			return s.ctx.UF("f64.trunc", BV(64), x)
		}
		c := s.ctx
		if x.Sort.K == KInt {
			return x
		}
		neg := c.Lt(x, c.RealConst(new(big.Rat)))
		return c.Ite(neg, c.Neg(c.Floor(c.Neg(x))), c.Floor(x))
	})
	reg("math.Hypot", func(s *State, fn *ssa.Function, a []Value) Value {
		x, y := a[0].(*Term), a[1].(*Term)
		if s.eng.cfg.Domain == DomainB {
			if x.IsConst() && y.IsConst() {
				return s.ctx.BVConst(math.Float64bits(math.Hypot(math.Float64frombits(x.U), math.Float64frombits(y.U))), 64)
			}
			s.run.ufOps++
			return s.ctx.UF("f64.hypot", BV(64), x, y)
		}
		xx := s.xbinop(tokenMUL, x, x).(*Term)
		yy := s.xbinop(tokenMUL, y, y).(*Term)
		return s.fsqrt(s.xbinop(tokenADD, xx, yy).(*Term))
	})

	// ---- assembly leaves ----
	reg("internal/bytealg.IndexByte", func(s *State, fn *ssa.Function, a []Value) Value {
		bs := sliceTerms(s, a[0])
		return s.indexByte(bs, a[1].(*Term))
	})
	reg("internal/bytealg.IndexByteString", func(s *State, fn *ssa.Function, a []Value) Value {
		return s.indexByte(a[0].(*StrV).Bytes(s.ctx), a[1].(*Term))
	})
	reg("internal/bytealg.Equal", func(s *State, fn *ssa.Function, a []Value) Value {
		x, y := sliceTerms(s, a[0]), sliceTerms(s, a[1])
		if len(x) != len(y) {
			return s.ctx.False()
		}
		cs := make([]*Term, len(x))
		for i := range x {
			cs[i] = s.ctx.Eq(x[i], y[i])
		}
		return s.ctx.And(cs...)
	})
	reg("internal/bytealg.CountString", func(s *State, fn *ssa.Function, a []Value) Value {
		bs := a[0].(*StrV).Bytes(s.ctx)
		n := 0
		for _, b := range bs {
			if s.branch(s.ctx.Eq(b, a[1].(*Term))) {
				n++
			}
		}
		return c64(s, int64(n))
	})
	reg("internal/bytealg.IndexString", func(s *State, fn *ssa.Function, a []Value) Value {
		x, y := a[0].(*StrV), a[1].(*StrV)
		if x.isConc && y.isConc {
			return c64(s, int64(strings.Index(x.conc, y.conc)))
		}
		// byte-wise search on symbolic strings (forks on each candidate position)
		n, m := x.Len(), y.Len()
		for i := 0; i+m <= n; i++ {
			cs := make([]*Term, m)
			for j := 0; j < m; j++ {
				cs[j] = s.ctx.Eq(x.Byte(s.ctx, i+j), y.Byte(s.ctx, j))
			}
			if s.branch(s.ctx.And(cs...)) {
				return c64(s, int64(i))
			}
		}
		return c64(s, -1)
	})
	// regexp is not modelled: a compiled pattern is an opaque nil handle; any method call on it aborts
	// the run (nil receiver -> panic site), so harnesses must not reach regexp-using code
	reg("regexp.MustCompile", func(s *State, fn *ssa.Function, a []Value) Value { return Ptr{} })
	reg("internal/bytealg.MakeNoZero", func(s *State, fn *ssa.Function, a []Value) Value {
		n := s.concretizeLen(a[0].(*Term), "MakeNoZero")
		return s.makeSlice(types.Typ[types.Uint8], n, n)
	})
	reg("(*strings.Builder).copyCheck", func(s *State, fn *ssa.Function, a []Value) Value { return nil })

	// ---- errors / fmt (opaque) ----
	reg("fmt.Errorf", func(s *State, fn *ssa.Function, a []Value) Value {
		s.fresh++
		oe := &OpaqueErr{id: s.fresh, note: strDesc(a[0])}
		// find a wrapped error among args if the format uses %w
		if sv, ok := a[0].(*StrV); ok && sv.isConc && strings.Contains(sv.conc, "%w") {
			va := a[1].(SliceV)
			if va.n > 0 {
				arr := s.resolve(va.obj).val.(*ArrayV)
				for i := 0; i < va.n; i++ {
					if iv, ok := arr.e[va.off+i].(Iface); ok && iv.typ != nil {
						if isErrorType(iv.typ) {
							oe.wrap = iv
						} else if _, isOE := iv.val.(*OpaqueErr); isOE {
							oe.wrap = iv
						}
					}
				}
			}
		}
		return Iface{typ: s.eng.opaqueErrType, val: oe}
	})
	opaqueString := func(s *State, fn *ssa.Function, a []Value) Value {
		s.fresh++
		return concStr(fmt.Sprintf("<formatted#%d>", s.fresh))
	}
	reg("fmt.Sprintf", opaqueString)
	reg("fmt.Sprint", opaqueString)
	reg("fmt.Sprintln", opaqueString)
	reg("errors.Is", func(s *State, fn *ssa.Function, a []Value) Value {
		err, target := a[0].(Iface), a[1].(Iface)
		for depth := 0; depth < 10; depth++ {
			if err.typ == nil {
				return s.ctx.False()
			}
			if s.refEqual(err, target) {
				return s.ctx.True()
			}
			oe, ok := err.val.(*OpaqueErr)
			if !ok || oe.wrap == nil {
				return s.ctx.False()
			}
			err = oe.wrap.(Iface)
		}
		return s.ctx.False()
	})
}

func strDesc(v Value) string {
	if sv, ok := v.(*StrV); ok && sv.isConc {
		return sv.conc
	}
	return "<sym>"
}

func isErrorType(t types.Type) bool {
	ms := types.NewMethodSet(t)
	for i := 0; i < ms.Len(); i++ {
		if ms.At(i).Obj().Name() == "Error" {
			return true
		}
	}
	return false
}

func (s *State) opaqueErrMethod(oe *OpaqueErr, name string) Value {
	switch name {
	case "Error":
		return concStr(fmt.Sprintf("<opaque error#%d %s>", oe.id, oe.note))
	case "Unwrap":
		if oe.wrap != nil {
			return oe.wrap
		}
		return Iface{}
	}
	panic(abortf("method %s on opaque error", name))
}

func (s *State) indexByte(bs []*Term, c *Term) Value {
	for i, b := range bs {
		if s.branch(s.ctx.Eq(b, c)) {
			return s.ctx.BVConst(uint64(i), 64)
		}
	}
	return s.ctx.BVConst(^uint64(0), 64)
}

func (s *State) frozen() map[*Object]bool {
	if s.frozenObjs == nil {
		s.frozenObjs = map[*Object]bool{}
	}
	return s.frozenObjs
}

// reach collects heap objects reachable from v. If deep, follows pointers stored inside objects.
func (s *State) reach(v Value, seen map[*Object]bool, deep bool) {
	switch x := v.(type) {
	case Ptr:
		if x.obj != nil && !seen[x.obj] {
			seen[x.obj] = true
			s.reach(s.resolve(x.obj).val, seen, deep)
		}
	case SliceV:
		if x.obj != nil && !seen[x.obj] {
			// a zero-capacity backing array is no storage: nothing can be written through it
			if av, ok := s.resolve(x.obj).val.(*ArrayV); ok && len(av.e) == 0 {
				return
			}
			seen[x.obj] = true
			s.reach(s.resolve(x.obj).val, seen, deep)
		}
	case *StructV:
		for _, f := range x.f {
			s.reach(f, seen, deep)
		}
	case *ArrayV:
		for _, e := range x.e {
			if _, ok := e.(*Term); ok {
				continue
			}
			s.reach(e, seen, deep)
		}
	case Iface:
		if x.typ != nil {
			s.reach(x.val, seen, deep)
		}
	case TupleV:
		for _, e := range x {
			s.reach(e, seen, deep)
		}
	case *MapV:
		if x != nil {
			for _, e := range x.entries {
				s.reach(e.k, seen, deep)
				s.reach(e.v, seen, deep)
			}
		}
	}
}
