package main

import (
	"math/big"
	"testing"
)

func TestPolyIdentity3D(t *testing.T) {
	c := NewTermCtx()
	v := func(n string) *Term { return c.Var(n, SReal) }
	p := []*Term{v("p0"), v("p1"), v("p2")}
	a := []*Term{v("a0"), v("a1"), v("a2")}
	b := []*Term{v("b0"), v("b1"), v("b2")}
	zero := c.RealConst(ratInt(0))
	den, num, da := zero, zero, zero
	for k := 0; k < 3; k++ {
		dk := c.Sub(b[k], a[k])
		den = c.Add(den, c.Mul(dk, dk))
		num = c.Add(num, c.Mul(c.Sub(p[k], a[k]), dk))
		da = c.Add(da, c.Mul(c.Sub(p[k], a[k]), c.Sub(p[k], a[k])))
	}
	r := c.Div(num, den)
	d2 := zero
	for k := 0; k < 3; k++ {
		q := c.Add(a[k], c.Mul(r, c.Sub(b[k], a[k])))
		dx := c.Sub(p[k], q)
		d2 = c.Add(d2, c.Mul(dx, dx))
	}
	lhs := c.Mul(d2, den)
	rhs := c.Sub(c.Mul(da, den), c.Mul(num, num))
	if !c.algebraicallyEqual(lhs, rhs) {
		fa, fb := c.normFrac(lhs, 0), c.normFrac(rhs, 0)
		t.Fatalf("identity not recognised: %d/%v vs %d/%v", len(fa.num), fa.den, len(fb.num), fb.den)
	}
}

func ratInt(i int64) *big.Rat { return big.NewRat(i, 1) }
