package main

// One incremental SMT solver process per worker, SMT-LIB2 over pipes.

import (
	"bufio"
	"fmt"
	"io"
	"math/big"
	"os/exec"
	"strings"
	"time"
)

type SolverKind int

const (
	SolverZ3 SolverKind = iota
	SolverZ3New
	SolverCVC5
)

func (k SolverKind) String() string { return [...]string{"z3", "z3-new", "cvc5"}[k] }

type Solver struct {
	kind      SolverKind
	cmd       *exec.Cmd
	in        io.WriteCloser
	out       *bufio.Reader
	timeoutMs int
	logw      io.Writer
	// statistics
	nSat, nUnsat, nUnknown int
	solveTime              time.Duration
	// per-scope state
	defined map[*Term]bool
	declUF  map[string]bool
	dead    bool
	tactic  string // tactic to try first (default qfnra-nlsat)
	nlsat   bool // domain X: try z3's nlsat tactic first (the incremental core rarely decides NRA)
	nNlsat  int
}

func StartSolver(kind SolverKind, timeoutMs int, logw io.Writer) (*Solver, error) {
	var cmd *exec.Cmd
	switch kind {
	case SolverZ3:
		cmd = exec.Command("z3", "-in", "-smt2")
	case SolverZ3New:
		cmd = exec.Command("z3-new", "-in", "-smt2")
	case SolverCVC5:
		cmd = exec.Command("cvc5", "--incremental", "--produce-models", "--lang=smt2", fmt.Sprintf("--tlimit-per=%d", timeoutMs))
	}
	in, err := cmd.StdinPipe()
	if err != nil {
		return nil, err
	}
	outp, err := cmd.StdoutPipe()
	if err != nil {
		return nil, err
	}
	cmd.Stderr = cmd.Stdout
	if err := cmd.Start(); err != nil {
		return nil, err
	}
	s := &Solver{kind: kind, cmd: cmd, in: in, out: bufio.NewReaderSize(outp, 1<<16), timeoutMs: timeoutMs, logw: logw}
	s.preamble()
	return s, nil
}

func (s *Solver) preamble() {
	s.defined = map[*Term]bool{}
	s.declUF = map[string]bool{}
	if s.kind == SolverCVC5 {
		s.send("(set-logic ALL)")
	} else {
		s.send("(set-option :produce-models true)")
		s.send(fmt.Sprintf("(set-option :timeout %d)", s.timeoutMs))
	}
}

func (s *Solver) send(line string) {
	if s.logw != nil {
		fmt.Fprintln(s.logw, line)
	}
	if _, err := io.WriteString(s.in, line+"\n"); err != nil {
		s.dead = true
	}
}

func (s *Solver) Close() {
	s.send("(exit)")
	s.in.Close()
	done := make(chan struct{})
	go func() { s.cmd.Wait(); close(done) }()
	select {
	case <-done:
	case <-time.After(2 * time.Second):
		s.cmd.Process.Kill()
	}
}

// Reset drops all assertions and definitions.
func (s *Solver) Reset() {
	s.send("(reset)")
	s.preamble()
}

func (s *Solver) readLine() string {
	line, err := s.out.ReadString('\n')
	if err != nil {
		s.dead = true
		return "(error \"solver died\")"
	}
	return strings.TrimSpace(line)
}

// readSexpr reads a balanced s-expression (possibly multi-line).
func (s *Solver) readSexpr() string {
	var sb strings.Builder
	depth := 0
	started := false
	for {
		line, err := s.out.ReadString('\n')
		if err != nil {
			s.dead = true
			return sb.String()
		}
		sb.WriteString(line)
		inBar := false
		for _, ch := range line {
			switch {
			case ch == '|':
				inBar = !inBar
			case inBar:
			case ch == '(':
				depth++
				started = true
			case ch == ')':
				depth--
			}
		}
		if started && depth <= 0 {
			return sb.String()
		}
		if !started && strings.TrimSpace(line) != "" {
			return sb.String()
		}
	}
}

// define makes sure t (and its sub-terms) are known to the solver by name and returns the name.
func (s *Solver) ref(ctx *TermCtx, t *Term) string {
	switch t.Op {
	case OpConst:
		return constStr(t)
	case OpVar:
		if !s.defined[t] {
			s.defined[t] = true
			s.send(fmt.Sprintf("(declare-const %s %s)", smtSym(t.Name), t.Sort))
		}
		return smtSym(t.Name)
	}
	name := fmt.Sprintf("t!%d", t.id)
	if s.defined[t] {
		return name
	}
	// iterative post-order to avoid deep recursion
	type fr struct {
		t *Term
		i int
	}
	stack := []fr{{t, 0}}
	for len(stack) > 0 {
		f := &stack[len(stack)-1]
		if f.i < len(f.t.Args) {
			a := f.t.Args[f.i]
			f.i++
			if a.Op == OpConst || s.defined[a] {
				continue
			}
			if a.Op == OpVar {
				s.ref(ctx, a)
				continue
			}
			stack = append(stack, fr{a, 0})
			continue
		}
		x := f.t
		stack = stack[:len(stack)-1]
		if s.defined[x] {
			continue
		}
		if x.Op == OpUF && !s.declUF[x.Name] {
			s.declUF[x.Name] = true
			d := ctx.ufs[x.Name]
			var as []string
			for _, a := range d.args {
				as = append(as, a.String())
			}
			s.send(fmt.Sprintf("(declare-fun %s (%s) %s)", smtSym(x.Name), strings.Join(as, " "), d.ret))
		}
		s.defined[x] = true
		s.send(fmt.Sprintf("(define-fun t!%d () %s %s)", x.id, x.Sort, termHead(x, func(y *Term) string {
			switch y.Op {
			case OpConst:
				return constStr(y)
			case OpVar:
				return smtSym(y.Name)
			}
			return fmt.Sprintf("t!%d", y.id)
		})))
	}
	return name
}

func (s *Solver) Assert(ctx *TermCtx, t *Term) {
	r := s.ref(ctx, t)
	s.send("(assert " + r + ")")
}

type SatResult int

const (
	Unsat SatResult = iota
	Sat
	Unknown
)

func (r SatResult) String() string { return [...]string{"unsat", "sat", "unknown"}[r] }

// Check runs check-sat under the extra assumption `extra` (may be nil) in a push/pop scope.
// If keep is true and the result is sat, the scope is left open (for get-value) and the
// caller must call PopScope.
func (s *Solver) Check(ctx *TermCtx, extra *Term, keep bool) SatResult {
	var r string
	if extra != nil {
		r = s.ref(ctx, extra)
	}
	s.send("(push 1)")
	if extra != nil {
		s.send("(assert " + r + ")")
	}
	t0 := time.Now()
	res := Unknown
	if s.nlsat && s.kind != SolverCVC5 {
		tac := s.tactic
		if tac == "" {
			tac = "qfnra-nlsat"
		}
		s.send(fmt.Sprintf("(check-sat-using (try-for %s %d))", tac, s.timeoutMs))
		line := s.readLine()
		for line != "sat" && line != "unsat" && line != "unknown" && line != "timeout" && !strings.HasPrefix(line, "(error") && !s.dead {
			line = s.readLine()
		}
		if line == "sat" || line == "unsat" {
			s.nNlsat++
			if line == "sat" {
				res = Sat
			} else {
				res = Unsat
			}
			s.solveTime += time.Since(t0)
			if res == Sat {
				s.nSat++
			} else {
				s.nUnsat++
			}
			if !(keep && res == Sat) {
				s.send("(pop 1)")
			}
			return res
		}
		if strings.HasPrefix(line, "(error") && strings.Count(line, "(") > strings.Count(line, ")") {
			// multi-line error: swallow the rest
			for !s.dead {
				l2 := s.readLine()
				if strings.HasSuffix(l2, ")") {
					break
				}
			}
		}
	}
	s.send("(check-sat)")
	for {
		line := s.readLine()
		if line == "sat" {
			res = Sat
			break
		}
		if line == "unsat" {
			res = Unsat
			break
		}
		if line == "unknown" || line == "timeout" || strings.HasPrefix(line, "(error") || s.dead {
			res = Unknown
			if s.logw != nil {
				fmt.Fprintln(s.logw, "; solver said:", line)
			}
			break
		}
		if s.logw != nil {
			fmt.Fprintln(s.logw, "; unexpected solver output:", line)
		}
	}
	s.solveTime += time.Since(t0)
	switch res {
	case Sat:
		s.nSat++
	case Unsat:
		s.nUnsat++
	default:
		s.nUnknown++
	}
	if !(keep && res == Sat) {
		s.send("(pop 1)")
	}
	return res
}

func (s *Solver) PopScope() { s.send("(pop 1)") }

// GetValues returns model values for the given terms as strings (raw SMT text) after a sat Check(keep=true).
func (s *Solver) GetValues(ctx *TermCtx, ts []*Term) map[*Term]ModelVal {
	out := map[*Term]ModelVal{}
	const chunk = 64
	for i := 0; i < len(ts); i += chunk {
		j := i + chunk
		if j > len(ts) {
			j = len(ts)
		}
		var names []string
		for _, t := range ts[i:j] {
			if t.Op == OpVar && !s.defined[t] {
				// declared inside the open scope; forgotten again after the pop
				s.send(fmt.Sprintf("(declare-const %s %s)", smtSym(t.Name), t.Sort))
				defer delete(s.defined, t)
			}
			names = append(names, s.refNoDefine(t))
		}
		s.send("(get-value (" + strings.Join(names, " ") + "))")
		txt := s.readSexpr()
		if strings.Contains(txt, "(error") {
			continue
		}
		sx, _ := parseSexpr(txt)
		if sx == nil {
			continue
		}
		for k, pair := range sx.list {
			if len(pair.list) != 2 || i+k >= j {
				continue
			}
			mv, ok := parseModelVal(pair.list[1])
			if ok {
				out[ts[i+k]] = mv
			}
		}
	}
	return out
}

func (s *Solver) refNoDefine(t *Term) string {
	switch t.Op {
	case OpConst:
		return constStr(t)
	case OpVar:
		return smtSym(t.Name)
	}
	return fmt.Sprintf("t!%d", t.id)
}

type ModelVal struct {
	IsBool bool
	B      bool
	IsBV   bool
	U      uint64
	W      int
	Q      *big.Rat // Int / Real
}

func (m ModelVal) String() string {
	switch {
	case m.IsBool:
		return fmt.Sprint(m.B)
	case m.IsBV:
		return fmt.Sprintf("0x%x", m.U)
	case m.Q != nil:
		return m.Q.RatString()
	}
	return "?"
}

// ---- tiny s-expression parser ----

type sexpr struct {
	atom string
	list []*sexpr
	isL  bool
}

func parseSexpr(s string) (*sexpr, string) {
	s = strings.TrimLeft(s, " \t\r\n")
	if s == "" {
		return nil, ""
	}
	if s[0] == '(' {
		s = s[1:]
		n := &sexpr{isL: true}
		for {
			s = strings.TrimLeft(s, " \t\r\n")
			if s == "" {
				return n, ""
			}
			if s[0] == ')' {
				return n, s[1:]
			}
			var c *sexpr
			c, s = parseSexpr(s)
			if c == nil {
				return n, s
			}
			n.list = append(n.list, c)
		}
	}
	if s[0] == '|' {
		j := strings.IndexByte(s[1:], '|')
		if j < 0 {
			return &sexpr{atom: s}, ""
		}
		return &sexpr{atom: s[:j+2]}, s[j+2:]
	}
	j := 0
	for j < len(s) && !strings.ContainsRune(" \t\r\n()", rune(s[j])) {
		j++
	}
	return &sexpr{atom: s[:j]}, s[j:]
}

func parseNum(x *sexpr) (*big.Rat, bool) {
	if !x.isL {
		a := x.atom
		a = strings.TrimSuffix(a, "?")
		q, ok := new(big.Rat).SetString(a)
		return q, ok
	}
	if len(x.list) == 2 && x.list[0].atom == "-" {
		q, ok := parseNum(x.list[1])
		if !ok {
			return nil, false
		}
		return q.Neg(q), true
	}
	if len(x.list) == 3 && x.list[0].atom == "/" {
		a, ok1 := parseNum(x.list[1])
		b, ok2 := parseNum(x.list[2])
		if !ok1 || !ok2 || b.Sign() == 0 {
			return nil, false
		}
		return a.Quo(a, b), true
	}
	if len(x.list) == 2 && x.list[0].atom == "to_real" {
		return parseNum(x.list[1])
	}
	return nil, false
}

func parseModelVal(x *sexpr) (ModelVal, bool) {
	if !x.isL {
		a := x.atom
		switch {
		case a == "true":
			return ModelVal{IsBool: true, B: true}, true
		case a == "false":
			return ModelVal{IsBool: true, B: false}, true
		case strings.HasPrefix(a, "#x"):
			v := new(big.Int)
			v.SetString(a[2:], 16)
			return ModelVal{IsBV: true, U: v.Uint64(), W: 4 * (len(a) - 2)}, true
		case strings.HasPrefix(a, "#b"):
			v := new(big.Int)
			v.SetString(a[2:], 2)
			return ModelVal{IsBV: true, U: v.Uint64(), W: len(a) - 2}, true
		}
	} else if len(x.list) == 3 && x.list[0].atom == "_" && strings.HasPrefix(x.list[1].atom, "bv") {
		v := new(big.Int)
		v.SetString(x.list[1].atom[2:], 10)
		w := 0
		fmt.Sscan(x.list[2].atom, &w)
		return ModelVal{IsBV: true, U: v.Uint64(), W: w}, true
	}
	if q, ok := parseNum(x); ok {
		return ModelVal{Q: q}, true
	}
	return ModelVal{}, false
}
