package main

// Hash-consed SMT terms with constant folding and local simplification.

import (
	"fmt"
	"math/big"
	"strconv"
	"strings"
)

type Kind uint8

const (
	KBool Kind = iota
	KBV
	KInt
	KReal
)

type Sort struct {
	K Kind
	W int
}

var (
	SBool = Sort{KBool, 0}
	SInt  = Sort{KInt, 0}
	SReal = Sort{KReal, 0}
)

func BV(w int) Sort { return Sort{KBV, w} }

func (s Sort) String() string {
	switch s.K {
	case KBool:
		return "Bool"
	case KBV:
		return fmt.Sprintf("(_ BitVec %d)", s.W)
	case KInt:
		return "Int"
	default:
		return "Real"
	}
}

type Op uint8

const (
	OpConst Op = iota
	OpVar
	OpNot
	OpAnd
	OpOr
	OpIte
	OpEq
	OpBVAdd
	OpBVSub
	OpBVMul
	OpBVUDiv
	OpBVSDiv
	OpBVURem
	OpBVSRem
	OpBVAnd
	OpBVOr
	OpBVXor
	OpBVNot
	OpBVNeg
	OpBVShl
	OpBVLshr
	OpBVAshr
	OpBVUlt
	OpBVUle
	OpBVSlt
	OpBVSle
	OpConcat
	OpExtract // U = hi<<8|lo
	OpZeroExt
	OpSignExt
	OpAdd
	OpSub
	OpMul
	OpDiv // real division
	OpIDiv
	OpMod
	OpNeg
	OpLt
	OpLe
	OpToReal
	OpToInt // floor
	OpUF
	OpInt2BV // int -> bv (W)
	OpBV2Int // unsigned
)

var opNames = map[Op]string{
	OpNot: "not", OpAnd: "and", OpOr: "or", OpIte: "ite", OpEq: "=",
	OpBVAdd: "bvadd", OpBVSub: "bvsub", OpBVMul: "bvmul", OpBVUDiv: "bvudiv", OpBVSDiv: "bvsdiv",
	OpBVURem: "bvurem", OpBVSRem: "bvsrem", OpBVAnd: "bvand", OpBVOr: "bvor", OpBVXor: "bvxor",
	OpBVNot: "bvnot", OpBVNeg: "bvneg", OpBVShl: "bvshl", OpBVLshr: "bvlshr", OpBVAshr: "bvashr",
	OpBVUlt: "bvult", OpBVUle: "bvule", OpBVSlt: "bvslt", OpBVSle: "bvsle", OpConcat: "concat",
	OpAdd: "+", OpSub: "-", OpMul: "*", OpDiv: "/", OpIDiv: "div", OpMod: "mod", OpNeg: "-",
	OpLt: "<", OpLe: "<=", OpToReal: "to_real", OpToInt: "to_int", OpBV2Int: "bv2nat",
}

type Term struct {
	Op   Op
	Sort Sort
	Args []*Term
	U    uint64   // BV/bool const value; extract hi/lo
	Q    *big.Rat // Int/Real const
	Name string   // var / UF name
	id   uint32
}

func (t *Term) IsConst() bool { return t.Op == OpConst }
func (t *Term) IsTrue() bool  { return t.Op == OpConst && t.Sort.K == KBool && t.U == 1 }
func (t *Term) IsFalse() bool { return t.Op == OpConst && t.Sort.K == KBool && t.U == 0 }

// TermCtx is a per-worker term factory (not shared between goroutines).
type TermCtx struct {
	fracMemo map[*Term]frac
	divPolys map[string]poly
	tab    map[string]*Term
	nextID uint32
	tt, ff *Term
	ufs    map[string]ufDecl
	ufList []string
}

type ufDecl struct {
	args []Sort
	ret  Sort
}

func NewTermCtx() *TermCtx {
	c := &TermCtx{tab: map[string]*Term{}, ufs: map[string]ufDecl{}}
	c.tt = c.mk(&Term{Op: OpConst, Sort: SBool, U: 1})
	c.ff = c.mk(&Term{Op: OpConst, Sort: SBool, U: 0})
	return c
}

func (c *TermCtx) mk(t *Term) *Term {
	var sb strings.Builder
	sb.WriteByte(byte(t.Op) + 'A')
	sb.WriteByte(byte(t.Sort.K) + '0')
	sb.WriteString(strconv.Itoa(t.Sort.W))
	sb.WriteByte(':')
	switch t.Op {
	case OpConst:
		if t.Q != nil {
			sb.WriteString(t.Q.String())
		} else {
			sb.WriteString(strconv.FormatUint(t.U, 16))
		}
	case OpVar:
		sb.WriteString(t.Name)
	case OpUF:
		sb.WriteString(t.Name)
		sb.WriteByte(':')
	case OpExtract:
		sb.WriteString(strconv.FormatUint(t.U, 16))
		sb.WriteByte(':')
	}
	for _, a := range t.Args {
		sb.WriteString(strconv.FormatUint(uint64(a.id), 36))
		sb.WriteByte(',')
	}
	k := sb.String()
	if x, ok := c.tab[k]; ok {
		return x
	}
	c.nextID++
	t.id = c.nextID
	c.tab[k] = t
	return t
}

func mask(w int) uint64 {
	if w >= 64 {
		return ^uint64(0)
	}
	return (uint64(1) << uint(w)) - 1
}

func sext(v uint64, w int) int64 {
	if w >= 64 {
		return int64(v)
	}
	sh := uint(64 - w)
	return int64(v<<sh) >> sh
}

func (c *TermCtx) Bool(b bool) *Term {
	if b {
		return c.tt
	}
	return c.ff
}
func (c *TermCtx) True() *Term  { return c.tt }
func (c *TermCtx) False() *Term { return c.ff }

func (c *TermCtx) BVConst(v uint64, w int) *Term {
	return c.mk(&Term{Op: OpConst, Sort: BV(w), U: v & mask(w)})
}
func (c *TermCtx) IntConst(v int64) *Term {
	return c.mk(&Term{Op: OpConst, Sort: SInt, Q: new(big.Rat).SetInt64(v)})
}
func (c *TermCtx) IntConstBig(v *big.Int) *Term {
	return c.mk(&Term{Op: OpConst, Sort: SInt, Q: new(big.Rat).SetInt(v)})
}
func (c *TermCtx) RealConst(q *big.Rat) *Term {
	return c.mk(&Term{Op: OpConst, Sort: SReal, Q: new(big.Rat).Set(q)})
}
func (c *TermCtx) NumConst(q *big.Rat, s Sort) *Term {
	if s.K == KInt {
		if !q.IsInt() {
			panic("non-integer Int const")
		}
		return c.mk(&Term{Op: OpConst, Sort: SInt, Q: new(big.Rat).Set(q)})
	}
	return c.RealConst(q)
}
func (c *TermCtx) Var(name string, s Sort) *Term {
	return c.mk(&Term{Op: OpVar, Sort: s, Name: name})
}

func (c *TermCtx) UF(name string, ret Sort, args ...*Term) *Term {
	if _, ok := c.ufs[name]; !ok {
		d := ufDecl{ret: ret}
		for _, a := range args {
			d.args = append(d.args, a.Sort)
		}
		c.ufs[name] = d
		c.ufList = append(c.ufList, name)
	}
	return c.mk(&Term{Op: OpUF, Sort: ret, Name: name, Args: args})
}

// ---------- boolean ----------

func (c *TermCtx) Not(a *Term) *Term {
	if a.IsConst() {
		return c.Bool(a.U == 0)
	}
	if a.Op == OpNot {
		return a.Args[0]
	}
	return c.mk(&Term{Op: OpNot, Sort: SBool, Args: []*Term{a}})
}

func (c *TermCtx) And(as ...*Term) *Term {
	var out []*Term
	seen := map[*Term]bool{}
	for _, a := range as {
		if a.IsFalse() {
			return c.ff
		}
		if a.IsTrue() || seen[a] {
			continue
		}
		if a.Op == OpAnd {
			for _, b := range a.Args {
				if !seen[b] {
					seen[b] = true
					out = append(out, b)
				}
			}
			continue
		}
		seen[a] = true
		out = append(out, a)
	}
	for _, a := range out {
		if a.Op == OpNot && seen[a.Args[0]] {
			return c.ff
		}
	}
	if len(out) == 0 {
		return c.tt
	}
	if len(out) == 1 {
		return out[0]
	}
	return c.mk(&Term{Op: OpAnd, Sort: SBool, Args: out})
}

func (c *TermCtx) Or(as ...*Term) *Term {
	var out []*Term
	seen := map[*Term]bool{}
	for _, a := range as {
		if a.IsTrue() {
			return c.tt
		}
		if a.IsFalse() || seen[a] {
			continue
		}
		if a.Op == OpOr {
			for _, b := range a.Args {
				if !seen[b] {
					seen[b] = true
					out = append(out, b)
				}
			}
			continue
		}
		seen[a] = true
		out = append(out, a)
	}
	for _, a := range out {
		if a.Op == OpNot && seen[a.Args[0]] {
			return c.tt
		}
	}
	if len(out) == 0 {
		return c.ff
	}
	if len(out) == 1 {
		return out[0]
	}
	return c.mk(&Term{Op: OpOr, Sort: SBool, Args: out})
}

func (c *TermCtx) Implies(a, b *Term) *Term { return c.Or(c.Not(a), b) }

func (c *TermCtx) Ite(cond, a, b *Term) *Term {
	if cond.IsConst() {
		if cond.U == 1 {
			return a
		}
		return b
	}
	if a == b {
		return a
	}
	if a.Sort != b.Sort {
		panic(fmt.Sprintf("ite sort mismatch %v %v", a.Sort, b.Sort))
	}
	if a.Sort.K == KBool {
		if a.IsTrue() && b.IsFalse() {
			return cond
		}
		if a.IsFalse() && b.IsTrue() {
			return c.Not(cond)
		}
	}
	return c.mk(&Term{Op: OpIte, Sort: a.Sort, Args: []*Term{cond, a, b}})
}

func (c *TermCtx) Eq(a, b *Term) *Term {
	if a == b {
		return c.tt
	}
	if a.Sort != b.Sort {
		if a.Sort.K == KInt && b.Sort.K == KReal {
			a = c.ToReal(a)
		} else if a.Sort.K == KReal && b.Sort.K == KInt {
			b = c.ToReal(b)
		} else {
			panic(fmt.Sprintf("eq sort mismatch %v %v", a.Sort, b.Sort))
		}
	}
	if a.IsConst() && b.IsConst() {
		if a.Q != nil {
			return c.Bool(a.Q.Cmp(b.Q) == 0)
		}
		return c.Bool(a.U == b.U)
	}
	if a.Sort.K == KBool {
		if a.IsConst() {
			a, b = b, a
		}
		if b.IsTrue() {
			return a
		}
		if b.IsFalse() {
			return c.Not(a)
		}
	}
	// algebraic identities between arithmetic terms (exact rational-function normal form)
	if (a.Sort.K == KReal || a.Sort.K == KInt) && !a.IsConst() && !b.IsConst() && isArith(a) && isArith(b) && c.algebraicallyEqual(a, b) {
		return c.tt
	}
	// const == ite(c, k1, k2) with constant leaves: push the comparison into the ite (keeps BV
	// encodings of small enumerations such as Sign() or orientation codes out of arithmetic queries)
	if a.IsConst() && b.Op == OpIte && a.Sort.K == KBV && iteConstLeaves(b, 0) {
		return c.eqConstIte(a, b)
	}
	if b.IsConst() && a.Op == OpIte && b.Sort.K == KBV && iteConstLeaves(a, 0) {
		return c.eqConstIte(b, a)
	}
	// byte-wise decomposition helps fold encode/decode round trips:
	// concat(x..) == concat(y..) is left to the solver.
	if a.id > b.id {
		a, b = b, a
	}
	return c.mk(&Term{Op: OpEq, Sort: SBool, Args: []*Term{a, b}})
}

func isArith(t *Term) bool {
	switch t.Op {
	case OpAdd, OpSub, OpMul, OpDiv, OpNeg, OpToReal:
		return true
	}
	return false
}

func iteConstLeaves(t *Term, depth int) bool {
	if depth > 8 {
		return false
	}
	if t.IsConst() {
		return true
	}
	if t.Op != OpIte {
		return false
	}
	return iteConstLeaves(t.Args[1], depth+1) && iteConstLeaves(t.Args[2], depth+1)
}

func (c *TermCtx) eqConstIte(k, t *Term) *Term {
	if t.IsConst() {
		return c.Bool(k.U == t.U)
	}
	return c.Ite(t.Args[0], c.eqConstIte(k, t.Args[1]), c.eqConstIte(k, t.Args[2]))
}

// ---------- bit-vectors ----------

func (c *TermCtx) bvbin(op Op, a, b *Term) *Term {
	if a.Sort != b.Sort || a.Sort.K != KBV {
		panic(fmt.Sprintf("bv binop %s sort mismatch %v %v", opNames[op], a.Sort, b.Sort))
	}
	w := a.Sort.W
	if a.IsConst() && b.IsConst() {
		x, y := a.U, b.U
		var r uint64
		switch op {
		case OpBVAdd:
			r = x + y
		case OpBVSub:
			r = x - y
		case OpBVMul:
			r = x * y
		case OpBVUDiv:
			if y == 0 {
				r = mask(w)
			} else {
				r = x / y
			}
		case OpBVURem:
			if y == 0 {
				r = x
			} else {
				r = x % y
			}
		case OpBVSDiv:
			sx, sy := sext(x, w), sext(y, w)
			if sy == 0 {
				if sx >= 0 {
					r = mask(w)
				} else {
					r = 1
				}
			} else if sy == -1 {
				r = uint64(-sx)
			} else {
				r = uint64(sx / sy)
			}
		case OpBVSRem:
			sx, sy := sext(x, w), sext(y, w)
			if sy == 0 {
				r = x
			} else if sy == -1 {
				r = 0
			} else {
				r = uint64(sx % sy)
			}
		case OpBVAnd:
			r = x & y
		case OpBVOr:
			r = x | y
		case OpBVXor:
			r = x ^ y
		case OpBVShl:
			if y >= uint64(w) {
				r = 0
			} else {
				r = x << y
			}
		case OpBVLshr:
			if y >= uint64(w) {
				r = 0
			} else {
				r = x >> y
			}
		case OpBVAshr:
			sx := sext(x, w)
			if y >= uint64(w) {
				if sx < 0 {
					r = mask(w)
				} else {
					r = 0
				}
			} else {
				r = uint64(sx >> y)
			}
		}
		return c.BVConst(r, w)
	}
	// identities
	switch op {
	case OpBVAdd:
		if a.IsConst() && a.U == 0 {
			return b
		}
		if b.IsConst() && b.U == 0 {
			return a
		}
		// (x + c1) + c2
		if b.IsConst() && a.Op == OpBVAdd && a.Args[1].IsConst() {
			return c.bvbin(OpBVAdd, a.Args[0], c.BVConst(a.Args[1].U+b.U, w))
		}
		if a.IsConst() {
			a, b = b, a
		}
	case OpBVSub:
		if b.IsConst() && b.U == 0 {
			return a
		}
		if a == b {
			return c.BVConst(0, w)
		}
		if b.IsConst() {
			return c.bvbin(OpBVAdd, a, c.BVConst(-b.U, w))
		}
	case OpBVMul:
		if a.IsConst() {
			a, b = b, a
		}
		if b.IsConst() {
			if b.U == 0 {
				return b
			}
			if b.U == 1 {
				return a
			}
		}
	case OpBVAnd:
		if a.IsConst() {
			a, b = b, a
		}
		if b.IsConst() {
			if b.U == 0 {
				return b
			}
			if b.U == mask(w) {
				return a
			}
		}
		if a == b {
			return a
		}
	case OpBVOr:
		if a.IsConst() {
			a, b = b, a
		}
		if b.IsConst() {
			if b.U == 0 {
				return a
			}
			if b.U == mask(w) {
				return b
			}
		}
		if a == b {
			return a
		}
	case OpBVXor:
		if a.IsConst() {
			a, b = b, a
		}
		if b.IsConst() && b.U == 0 {
			return a
		}
		if a == b {
			return c.BVConst(0, w)
		}
	case OpBVShl, OpBVLshr, OpBVAshr:
		if b.IsConst() && b.U == 0 {
			return a
		}
		if b.IsConst() && b.U >= uint64(w) && op != OpBVAshr {
			return c.BVConst(0, w)
		}
		// shifts of zero-extended bytes by whole bytes: rewrite as concat (helps decode folding)
		if b.IsConst() && op == OpBVShl && a.Op == OpZeroExt && int(b.U)+a.Args[0].Sort.W <= w {
			inner := a.Args[0]
			sh := int(b.U)
			hi := w - sh - inner.Sort.W
			t := inner
			if sh > 0 {
				t = c.Concat(t, c.BVConst(0, sh))
			}
			if hi > 0 {
				t = c.Concat(c.BVConst(0, hi), t)
			}
			return t
		}
		if b.IsConst() && op == OpBVLshr {
			sh := int(b.U)
			// x >> sh == zero_ext(extract[w-1:sh](x))
			return c.ZeroExt(c.Extract(a, w-1, sh), w)
		}
	}
	return c.mk(&Term{Op: op, Sort: a.Sort, Args: []*Term{a, b}})
}

func (c *TermCtx) BVAdd(a, b *Term) *Term  { return c.bvbin(OpBVAdd, a, b) }
func (c *TermCtx) BVSub(a, b *Term) *Term  { return c.bvbin(OpBVSub, a, b) }
func (c *TermCtx) BVMul(a, b *Term) *Term  { return c.bvbin(OpBVMul, a, b) }
func (c *TermCtx) BVUDiv(a, b *Term) *Term { return c.bvbin(OpBVUDiv, a, b) }
func (c *TermCtx) BVSDiv(a, b *Term) *Term { return c.bvbin(OpBVSDiv, a, b) }
func (c *TermCtx) BVURem(a, b *Term) *Term { return c.bvbin(OpBVURem, a, b) }
func (c *TermCtx) BVSRem(a, b *Term) *Term { return c.bvbin(OpBVSRem, a, b) }
func (c *TermCtx) BVAnd(a, b *Term) *Term  { return c.bvbin(OpBVAnd, a, b) }
func (c *TermCtx) BVOr(a, b *Term) *Term {
	// or of disjoint concat-with-zeros pieces -> concat (decode folding)
	if a.Sort.K == KBV && a.Sort == b.Sort && !a.IsConst() && !b.IsConst() {
		if r := c.mergeOr(a, b); r != nil {
			return r
		}
	}
	return c.bvbin(OpBVOr, a, b)
}
func (c *TermCtx) BVXor(a, b *Term) *Term  { return c.bvbin(OpBVXor, a, b) }
func (c *TermCtx) BVShl(a, b *Term) *Term  { return c.bvbin(OpBVShl, a, b) }
func (c *TermCtx) BVLshr(a, b *Term) *Term { return c.bvbin(OpBVLshr, a, b) }
func (c *TermCtx) BVAshr(a, b *Term) *Term { return c.bvbin(OpBVAshr, a, b) }

// pieces decomposes a term into a list of (term,width) from high to low, where
// zero constants are represented with nil term.
type piece struct {
	t *Term
	w int
}

func (c *TermCtx) pieces(t *Term, out []piece) []piece {
	switch {
	case t.Op == OpConcat:
		for _, a := range t.Args {
			out = c.pieces(a, out)
		}
	case t.Op == OpZeroExt:
		out = append(out, piece{nil, t.Sort.W - t.Args[0].Sort.W})
		out = c.pieces(t.Args[0], out)
	case t.IsConst() && t.U == 0:
		out = append(out, piece{nil, t.Sort.W})
	default:
		out = append(out, piece{t, t.Sort.W})
	}
	return out
}

func (c *TermCtx) mergeOr(a, b *Term) *Term {
	pa := c.pieces(a, nil)
	pb := c.pieces(b, nil)
	// walk bit positions from the top; need aligned pieces where at most one side non-zero
	var out []piece
	i, j := 0, 0
	ra, rb := 0, 0 // remaining consumed width inside zero pieces
	for i < len(pa) && j < len(pb) {
		wa := pa[i].w - ra
		wb := pb[j].w - rb
		switch {
		case pa[i].t == nil && pb[j].t == nil:
			w := wa
			if wb < w {
				w = wb
			}
			out = append(out, piece{nil, w})
			ra += w
			rb += w
		case pa[i].t == nil:
			if ra != 0 && false {
				return nil
			}
			if wa < wb {
				return nil
			}
			out = append(out, pb[j])
			ra += wb
			rb += wb
		case pb[j].t == nil:
			if wb < wa {
				return nil
			}
			out = append(out, pa[i])
			ra += wa
			rb += wa
		default:
			return nil
		}
		if ra == pa[i].w {
			i++
			ra = 0
		}
		if rb == pb[j].w {
			j++
			rb = 0
		}
	}
	if i != len(pa) || j != len(pb) {
		return nil
	}
	var res *Term
	for _, p := range out {
		t := p.t
		if t == nil {
			t = c.BVConst(0, p.w)
		}
		if res == nil {
			res = t
		} else {
			res = c.Concat(res, t)
		}
	}
	return res
}

func (c *TermCtx) BVNot(a *Term) *Term {
	if a.IsConst() {
		return c.BVConst(^a.U, a.Sort.W)
	}
	if a.Op == OpBVNot {
		return a.Args[0]
	}
	return c.mk(&Term{Op: OpBVNot, Sort: a.Sort, Args: []*Term{a}})
}

func (c *TermCtx) BVNeg(a *Term) *Term {
	if a.IsConst() {
		return c.BVConst(-a.U, a.Sort.W)
	}
	return c.mk(&Term{Op: OpBVNeg, Sort: a.Sort, Args: []*Term{a}})
}

func (c *TermCtx) bvcmp(op Op, a, b *Term) *Term {
	if a.Sort != b.Sort || a.Sort.K != KBV {
		panic(fmt.Sprintf("bv cmp sort mismatch %v %v", a.Sort, b.Sort))
	}
	w := a.Sort.W
	if a.IsConst() && b.IsConst() {
		switch op {
		case OpBVUlt:
			return c.Bool(a.U < b.U)
		case OpBVUle:
			return c.Bool(a.U <= b.U)
		case OpBVSlt:
			return c.Bool(sext(a.U, w) < sext(b.U, w))
		case OpBVSle:
			return c.Bool(sext(a.U, w) <= sext(b.U, w))
		}
	}
	if a == b {
		return c.Bool(op == OpBVUle || op == OpBVSle)
	}
	return c.mk(&Term{Op: op, Sort: SBool, Args: []*Term{a, b}})
}
func (c *TermCtx) BVUlt(a, b *Term) *Term { return c.bvcmp(OpBVUlt, a, b) }
func (c *TermCtx) BVUle(a, b *Term) *Term { return c.bvcmp(OpBVUle, a, b) }
func (c *TermCtx) BVSlt(a, b *Term) *Term { return c.bvcmp(OpBVSlt, a, b) }
func (c *TermCtx) BVSle(a, b *Term) *Term { return c.bvcmp(OpBVSle, a, b) }

func (c *TermCtx) Concat(a, b *Term) *Term {
	w := a.Sort.W + b.Sort.W
	if a.IsConst() && b.IsConst() && w <= 64 {
		return c.BVConst(a.U<<uint(b.Sort.W)|b.U, w)
	}
	// extract[h:m+1](x) ++ extract[m:l](x) = extract[h:l](x)
	if a.Op == OpExtract && b.Op == OpExtract && a.Args[0] == b.Args[0] {
		ah, al := int(a.U>>8), int(a.U&0xff)
		bh, bl := int(b.U>>8), int(b.U&0xff)
		if al == bh+1 {
			return c.Extract(a.Args[0], ah, bl)
		}
	}
	// a ++ (extract ++ rest): try merging with head of b
	if b.Op == OpConcat && a.Op == OpExtract && b.Args[0].Op == OpExtract && a.Args[0] == b.Args[0].Args[0] {
		ah, al := int(a.U>>8), int(a.U&0xff)
		bh, bl := int(b.Args[0].U>>8), int(b.Args[0].U&0xff)
		_ = ah
		if al == bh+1 {
			return c.Concat(c.Extract(a.Args[0], ah, bl), b.Args[1])
		}
	}
	if a.Op == OpConcat && b.Op == OpExtract && a.Args[1].Op == OpExtract && a.Args[1].Args[0] == b.Args[0] {
		ah, al := int(a.Args[1].U>>8), int(a.Args[1].U&0xff)
		bh, bl := int(b.U>>8), int(b.U&0xff)
		if al == bh+1 {
			return c.Concat(a.Args[0], c.Extract(b.Args[0], ah, bl))
		}
	}
	return c.mk(&Term{Op: OpConcat, Sort: BV(w), Args: []*Term{a, b}})
}

func (c *TermCtx) Extract(a *Term, hi, lo int) *Term {
	w := hi - lo + 1
	if lo == 0 && w == a.Sort.W {
		return a
	}
	if hi >= a.Sort.W || lo < 0 || w <= 0 {
		panic(fmt.Sprintf("bad extract [%d:%d] of width %d", hi, lo, a.Sort.W))
	}
	if a.IsConst() {
		return c.BVConst(a.U>>uint(lo), w)
	}
	switch a.Op {
	case OpExtract:
		l0 := int(a.U & 0xff)
		return c.Extract(a.Args[0], hi+l0, lo+l0)
	case OpConcat:
		lw := a.Args[1].Sort.W
		if hi < lw {
			return c.Extract(a.Args[1], hi, lo)
		}
		if lo >= lw {
			return c.Extract(a.Args[0], hi-lw, lo-lw)
		}
		return c.Concat(c.Extract(a.Args[0], hi-lw, 0), c.Extract(a.Args[1], lw-1, lo))
	case OpZeroExt:
		iw := a.Args[0].Sort.W
		if hi < iw {
			return c.Extract(a.Args[0], hi, lo)
		}
		if lo >= iw {
			return c.BVConst(0, w)
		}
		return c.Concat(c.BVConst(0, hi-iw+1), c.Extract(a.Args[0], iw-1, lo))
	case OpSignExt:
		iw := a.Args[0].Sort.W
		if hi < iw {
			return c.Extract(a.Args[0], hi, lo)
		}
	case OpBVAnd, OpBVOr, OpBVXor:
		if a.Args[1].IsConst() {
			return c.bvbin(a.Op, c.Extract(a.Args[0], hi, lo), c.Extract(a.Args[1], hi, lo))
		}
	case OpIte:
		if a.Args[1].IsConst() && a.Args[2].IsConst() {
			return c.Ite(a.Args[0], c.Extract(a.Args[1], hi, lo), c.Extract(a.Args[2], hi, lo))
		}
	}
	return c.mk(&Term{Op: OpExtract, Sort: BV(w), Args: []*Term{a}, U: uint64(hi)<<8 | uint64(lo)})
}

func (c *TermCtx) ZeroExt(a *Term, w int) *Term {
	if a.Sort.W == w {
		return a
	}
	if a.Sort.W > w {
		panic("zeroext narrower")
	}
	if a.IsConst() {
		return c.BVConst(a.U, w)
	}
	if a.Op == OpZeroExt {
		return c.ZeroExt(a.Args[0], w)
	}
	return c.mk(&Term{Op: OpZeroExt, Sort: BV(w), Args: []*Term{a}})
}

func (c *TermCtx) SignExt(a *Term, w int) *Term {
	if a.Sort.W == w {
		return a
	}
	if a.IsConst() {
		return c.BVConst(uint64(sext(a.U, a.Sort.W)), w)
	}
	return c.mk(&Term{Op: OpSignExt, Sort: BV(w), Args: []*Term{a}})
}

// ---------- Int / Real ----------

func (c *TermCtx) coerce(a, b *Term) (*Term, *Term) {
	if a.Sort == b.Sort {
		return a, b
	}
	if a.Sort.K == KInt && b.Sort.K == KReal {
		return c.ToReal(a), b
	}
	if a.Sort.K == KReal && b.Sort.K == KInt {
		return a, c.ToReal(b)
	}
	panic(fmt.Sprintf("arith sort mismatch %v %v", a.Sort, b.Sort))
}

func (c *TermCtx) ToReal(a *Term) *Term {
	if a.Sort.K == KReal {
		return a
	}
	if a.IsConst() {
		return c.RealConst(a.Q)
	}
	return c.mk(&Term{Op: OpToReal, Sort: SReal, Args: []*Term{a}})
}

func (c *TermCtx) Floor(a *Term) *Term { // Real -> Int
	if a.Sort.K == KInt {
		return a
	}
	if a.IsConst() {
		n := new(big.Int).Div(a.Q.Num(), a.Q.Denom()) // Euclidean: floor for positive denom
		return c.IntConstBig(n)
	}
	if a.Op == OpToReal {
		return a.Args[0]
	}
	// floor(n/d) of integers: integer division (SMT div is floor division for a positive divisor)
	if a.Op == OpDiv && a.Args[0].Op == OpToReal && a.Args[1].Op == OpToReal {
		n, d := a.Args[0].Args[0], a.Args[1].Args[0]
		zero := c.IntConst(0)
		return c.Ite(c.Lt(zero, d), c.IDiv(n, d), c.IDiv(c.Neg(n), c.Neg(d)))
	}
	return c.mk(&Term{Op: OpToInt, Sort: SInt, Args: []*Term{a}})
}

func isZero(t *Term) bool { return t.IsConst() && t.Q != nil && t.Q.Sign() == 0 }
func isOne(t *Term) bool  { return t.IsConst() && t.Q != nil && t.Q.Cmp(big.NewRat(1, 1)) == 0 }

func (c *TermCtx) Add(a, b *Term) *Term {
	a, b = c.coerce(a, b)
	if a.IsConst() && b.IsConst() {
		return c.NumConst(new(big.Rat).Add(a.Q, b.Q), a.Sort)
	}
	if isZero(a) {
		return b
	}
	if isZero(b) {
		return a
	}
	return c.mk(&Term{Op: OpAdd, Sort: a.Sort, Args: []*Term{a, b}})
}
func (c *TermCtx) Sub(a, b *Term) *Term {
	a, b = c.coerce(a, b)
	if a.IsConst() && b.IsConst() {
		return c.NumConst(new(big.Rat).Sub(a.Q, b.Q), a.Sort)
	}
	if isZero(b) {
		return a
	}
	if a == b {
		return c.NumConst(new(big.Rat), a.Sort)
	}
	return c.mk(&Term{Op: OpSub, Sort: a.Sort, Args: []*Term{a, b}})
}
func (c *TermCtx) Mul(a, b *Term) *Term {
	a, b = c.coerce(a, b)
	if a.IsConst() && b.IsConst() {
		return c.NumConst(new(big.Rat).Mul(a.Q, b.Q), a.Sort)
	}
	if isZero(a) || isOne(b) {
		return a
	}
	if isZero(b) || isOne(a) {
		return b
	}
	return c.mk(&Term{Op: OpMul, Sort: a.Sort, Args: []*Term{a, b}})
}

// Div is real division (operands promoted to Real). Caller guarantees b != 0.
func (c *TermCtx) Div(a, b *Term) *Term {
	a, b = c.ToReal(a), c.ToReal(b)
	if a.IsConst() && b.IsConst() && b.Q.Sign() != 0 {
		return c.RealConst(new(big.Rat).Quo(a.Q, b.Q))
	}
	if isOne(b) {
		return a
	}
	if isZero(a) {
		return a
	}
	return c.mk(&Term{Op: OpDiv, Sort: SReal, Args: []*Term{a, b}})
}
func (c *TermCtx) Neg(a *Term) *Term {
	if a.IsConst() {
		return c.NumConst(new(big.Rat).Neg(a.Q), a.Sort)
	}
	if a.Op == OpNeg {
		return a.Args[0]
	}
	return c.mk(&Term{Op: OpNeg, Sort: a.Sort, Args: []*Term{a}})
}
func (c *TermCtx) Lt(a, b *Term) *Term {
	a, b = c.coerce(a, b)
	if a.IsConst() && b.IsConst() {
		return c.Bool(a.Q.Cmp(b.Q) < 0)
	}
	if a == b {
		return c.ff
	}
	return c.mk(&Term{Op: OpLt, Sort: SBool, Args: []*Term{a, b}})
}
func (c *TermCtx) Le(a, b *Term) *Term {
	a, b = c.coerce(a, b)
	if a.IsConst() && b.IsConst() {
		return c.Bool(a.Q.Cmp(b.Q) <= 0)
	}
	if a == b {
		return c.tt
	}
	return c.mk(&Term{Op: OpLe, Sort: SBool, Args: []*Term{a, b}})
}
func (c *TermCtx) IDiv(a, b *Term) *Term { // SMT div (floor for positive divisor)
	if a.IsConst() && b.IsConst() && b.Q.Sign() != 0 {
		q := new(big.Int)
		m := new(big.Int)
		q.DivMod(a.Q.Num(), b.Q.Num(), m)
		return c.IntConstBig(q)
	}
	return c.mk(&Term{Op: OpIDiv, Sort: SInt, Args: []*Term{a, b}})
}
func (c *TermCtx) Mod(a, b *Term) *Term {
	if a.IsConst() && b.IsConst() && b.Q.Sign() != 0 {
		q := new(big.Int)
		m := new(big.Int)
		q.DivMod(a.Q.Num(), b.Q.Num(), m)
		return c.IntConstBig(m)
	}
	return c.mk(&Term{Op: OpMod, Sort: SInt, Args: []*Term{a, b}})
}
func (c *TermCtx) BV2Int(a *Term) *Term { // unsigned value
	if a.IsConst() {
		return c.IntConstBig(new(big.Int).SetUint64(a.U))
	}
	return c.mk(&Term{Op: OpBV2Int, Sort: SInt, Args: []*Term{a}})
}
func (c *TermCtx) BV2IntSigned(a *Term) *Term {
	if a.IsConst() {
		return c.IntConst(sext(a.U, a.Sort.W))
	}
	w := a.Sort.W
	u := c.BV2Int(a)
	two := new(big.Int).Lsh(big.NewInt(1), uint(w))
	neg := c.BVSlt(a, c.BVConst(0, w))
	return c.Ite(neg, c.Sub(u, c.IntConstBig(two)), u)
}
func (c *TermCtx) Int2BV(a *Term, w int) *Term {
	if a.IsConst() {
		m := new(big.Int).Lsh(big.NewInt(1), uint(w))
		v := new(big.Int).Mod(a.Q.Num(), m)
		return c.BVConst(v.Uint64(), w)
	}
	return c.mk(&Term{Op: OpInt2BV, Sort: BV(w), Args: []*Term{a}})
}

// ---------- printing ----------

func smtSym(name string) string {
	ok := true
	for _, r := range name {
		if !(r >= 'a' && r <= 'z' || r >= 'A' && r <= 'Z' || r >= '0' && r <= '9' || r == '_' || r == '.' || r == '!') {
			ok = false
			break
		}
	}
	if ok && len(name) > 0 && !(name[0] >= '0' && name[0] <= '9') {
		return name
	}
	return "|" + strings.ReplaceAll(name, "|", "!") + "|"
}

func constStr(t *Term) string {
	switch t.Sort.K {
	case KBool:
		if t.U == 1 {
			return "true"
		}
		return "false"
	case KBV:
		if t.Sort.W%4 == 0 {
			return fmt.Sprintf("#x%0*x", t.Sort.W/4, t.U)
		}
		return fmt.Sprintf("#b%0*b", t.Sort.W, t.U)
	case KInt:
		n := t.Q.Num()
		if n.Sign() < 0 {
			return "(- " + new(big.Int).Neg(n).String() + ")"
		}
		return n.String()
	default:
		n, d := t.Q.Num(), t.Q.Denom()
		s := ""
		if n.Sign() < 0 {
			s = "(- " + new(big.Int).Neg(n).String() + ".0)"
		} else {
			s = n.String() + ".0"
		}
		if d.Cmp(big.NewInt(1)) == 0 {
			return s
		}
		return "(/ " + s + " " + d.String() + ".0)"
	}
}

// head returns the SMT text of t with children referenced by name (ref func).
func termHead(t *Term, ref func(*Term) string) string {
	switch t.Op {
	case OpConst:
		return constStr(t)
	case OpVar:
		return smtSym(t.Name)
	}
	var sb strings.Builder
	sb.WriteByte('(')
	switch t.Op {
	case OpExtract:
		fmt.Fprintf(&sb, "(_ extract %d %d)", t.U>>8, t.U&0xff)
	case OpZeroExt:
		fmt.Fprintf(&sb, "(_ zero_extend %d)", t.Sort.W-t.Args[0].Sort.W)
	case OpSignExt:
		fmt.Fprintf(&sb, "(_ sign_extend %d)", t.Sort.W-t.Args[0].Sort.W)
	case OpInt2BV:
		fmt.Fprintf(&sb, "(_ int2bv %d)", t.Sort.W)
	case OpUF:
		sb.WriteString(smtSym(t.Name))
	default:
		sb.WriteString(opNames[t.Op])
	}
	for _, a := range t.Args {
		sb.WriteByte(' ')
		sb.WriteString(ref(a))
	}
	sb.WriteByte(')')
	return sb.String()
}

// String prints the full tree (debugging / samples; may be large).
func (t *Term) String() string {
	var f func(x *Term, d int) string
	f = func(x *Term, d int) string {
		if d > 6 {
			return "..."
		}
		return termHead(x, func(y *Term) string { return f(y, d+1) })
	}
	return f(t, 0)
}
