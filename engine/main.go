package main

import (
	"math"
	"encoding/json"
	"flag"
	"fmt"
	"os"
	"os/exec"
	"path/filepath"
	"runtime"
	"sort"
	"strconv"
	"strings"
	"time"
)

type HarnessSpec struct {
	Func       string
	Pkg        string // "" = internal/zzverif/h ; "root" ; or repo-relative package dir
	Domain     Domain
	RoundModel bool
	NonFinite  bool
	DeltaModel bool // inexact float results are enclosed by the (1+d) model, |d|<=2^-53, instead of being taken as ideal
	NoPrune    bool // branches are not pruned by feasibility queries (bug-hunting harnesses)
	BugHunt    bool // an undecided (unknown) obligation is counted instead of making the run inconclusive: the harness only SEARCHES for counterexamples
	IntInputs  bool // grid inputs are Int-sorted solver variables (needed by the exact rounding model); default: real relaxation
	RealInputs bool // Float64Grid/Float64Range inputs are arbitrary REALS of the range (superset of the grid): pure NRA queries
	Tiers      string   // "" both; "quick"; "thorough"
	Covers     []string // witnesses that must be hit (vacuity guard)
	MaxSteps   int
	Note       string
}

type CheckSpec struct {
	Property    string
	Harnesses   []HarnessSpec
	Explanation string
	Assumptions []string
	Outside     []string
}

func main() {
	prop := flag.String("prop", "", "property id (C01..C20) or 'selftest'")
	tier := flag.String("tier", "quick", "quick|thorough")
	only := flag.String("harness", "", "run only this harness (debug)")
	verif := flag.String("verif", "/verif", "verif directory")
	workers := flag.Int("workers", runtime.NumCPU(), "parallel workers")
	timeout := flag.Int("timeout-ms", 0, "per-query solver timeout")
	solverName := flag.String("solver", "z3", "z3|z3-new|cvc5")
	verbose := flag.Bool("v", false, "verbose")
	smtlog := flag.String("smtlog", "", "prefix for SMT logs")
	maxPaths := flag.Int("max-paths", 0, "abort after this many paths")
	replay := flag.String("replay", "", "replay a violation file natively")
	noEvidence := flag.Bool("no-evidence", false, "do not write evidence (debug)")
	params := flag.String("param", "", "debug only: name=value,... overrides for sym.Param")
	vacuity := flag.Bool("vacuity", false, "vacuity twin: every harness must report its final assert(false) as violated")
	flag.Parse()

	if *replay != "" {
		os.Exit(replayOnly(*verif, *replay))
	}
	spec, ok := checkSpecs()[*prop]
	if !ok {
		fmt.Fprintf(os.Stderr, "unknown property %q\n", *prop)
		os.Exit(2)
	}
	seed := int64(0)
	if v := os.Getenv("VERIF_SEED"); v != "" {
		seed, _ = strconv.ParseInt(v, 10, 64)
	}
	cfg := Config{Property: *prop, Tier: *tier, MaxSteps: 3_000_000, MaxBackEdge: 20000, MaxLen: 4096, Workers: *workers, Seed: seed, Verbose: *verbose, SmtLog: *smtlog, MaxPaths: *maxPaths}
	if *timeout > 0 {
		cfg.TimeoutMs = *timeout
	} else if *tier == "thorough" {
		cfg.TimeoutMs = 30_000
	} else {
		cfg.TimeoutMs = 20_000
	}
	switch *solverName {
	case "z3-new":
		cfg.Solver = SolverZ3New
	case "cvc5":
		cfg.Solver = SolverCVC5
	}
	currentTier = *tier
	debugParams = map[string]int64{}
	for _, kv := range strings.Split(*params, ",") {
		if i := strings.Index(kv, "="); i > 0 {
			v, _ := strconv.ParseInt(kv[i+1:], 10, 64)
			debugParams[kv[:i]] = v
		}
	}
	t0 := time.Now()
	eng, err := LoadEngine(cfg, *verif)
	if err != nil {
		fmt.Fprintln(os.Stderr, "INCONCLUSIVE load:", err)
		os.Exit(3)
	}
	roots := []string{zzPrefix + "/h"}
	seenRoot := map[string]bool{roots[0]: true}
	for _, h := range spec.Harnesses {
		if h.Pkg != "" {
			p := repoMod + "/" + h.Pkg
			if h.Pkg == "root" {
				p = repoMod
			}
			if !seenRoot[p] {
				seenRoot[p] = true
				roots = append(roots, p)
			}
		}
	}
	eng.initRoots = roots
	if len(spec.Harnesses) > 0 {
		eng.cfg.Domain = spec.Harnesses[0].Domain
	}
	if err := eng.runInit(roots); err != nil {
		fmt.Fprintln(os.Stderr, "INCONCLUSIVE", err)
		os.Exit(3)
	}
	loadTime := time.Since(t0)
	if *verbose {
		fmt.Fprintf(os.Stderr, "loaded+init in %v (%d init objects, %d terms)\n", loadTime, eng.initObjs, len(eng.initCtx.tab))
	}

	var all []*HarnessStats
	exit := 0
	var inconclusive []string
	for _, h := range spec.Harnesses {
		if *only != "" && h.Func != *only {
			continue
		}
		if h.Tiers != "" && h.Tiers != *tier {
			continue
		}
		st, err := eng.RunHarness(h)
		if st != nil {
			all = append(all, st)
			fmt.Printf("harness %-34s paths=%-6d obligations=%-7d discharged=%-7d sat=%d unsat=%d unknown=%d solver=%.1fs wall=%.1fs violations=%d\n",
				h.Func, st.Paths, st.Obligations, st.Discharged, st.Sat, st.Unsat, st.Unknown, st.SolverTime.Seconds(), st.Wall.Seconds(), len(st.Violations))
		}
		if err != nil {
			fmt.Println(err)
			inconclusive = append(inconclusive, err.Error())
			eng.abortMsg = ""
			continue
		}
		for _, c := range h.Covers {
			if st.Covers[c] == 0 {
				msg := fmt.Sprintf("INCONCLUSIVE %s: vacuity: cover witness %q never reached", h.Func, c)
				fmt.Println(msg)
				inconclusive = append(inconclusive, msg)
			}
		}
		if *vacuity {
			found := false
			for _, v := range st.Violations {
				if v.Label == "vacuity-twin" {
					found = true
				}
			}
			if !found {
				msg := fmt.Sprintf("INCONCLUSIVE %s: vacuity twin not violated", h.Func)
				fmt.Println(msg)
				inconclusive = append(inconclusive, msg)
			}
		}
	}
	// violations: known findings, replay
	known := loadKnown(filepath.Join(*verif, "KNOWN_FINDINGS.txt"))
	var viols []*Violation
	for _, st := range all {
		var sigs []string
		for s := range st.Violations {
			sigs = append(sigs, s)
		}
		sort.Strings(sigs)
		for _, s := range sigs {
			viols = append(viols, st.Violations[s])
		}
	}
	unknownViol := 0
	if len(viols) > 0 && !*vacuity {
		rp, err := newReplayer(*verif)
		if err != nil {
			fmt.Println("INCONCLUSIVE cannot build native replay binary:", err)
			inconclusive = append(inconclusive, "replay build failed: "+err.Error())
		} else {
			defer rp.Close()
			for _, v := range viols {
				dir := filepath.Join(*verif, "replays", *prop)
				os.MkdirAll(dir, 0o755)
				v.Replay = filepath.Join(dir, sanitize(v.Sig())+".json")
				writeReplay(v, *prop)
				v.Reproduced, v.ReplayOut = rp.Run(v)
				if !v.Reproduced && v.UFOps > 0 && len(v.FloatInputs) > 0 {
					// the model interprets the uninterpreted float operations arbitrarily; look for ordinates
					// on which IEEE arithmetic shows the same failure (only a natively failing input is reported)
					rp.concretiseUF(v, *prop)
				}
				k := matchKnown(known, *prop, v)
				switch {
				case !v.Reproduced:
					msg := fmt.Sprintf("INCONCLUSIVE spurious: %s %s %q at %s did not reproduce natively (%s)", v.Harness, v.Kind, v.Label, v.Site, firstLine(v.ReplayOut))
					fmt.Println(msg)
					inconclusive = append(inconclusive, msg)
				case k != nil:
					v.Known = k.Desc
					fmt.Printf("KNOWN-FINDING: property=%s %s [%s %s %q at %s; %d paths] replay=%s\n", *prop, k.Desc, v.Harness, v.Kind, v.Label, v.Site, v.Count, v.Replay)
				default:
					unknownViol++
					fmt.Printf("VIOLATION property=%s replay=%s\n", *prop, v.Replay)
					fmt.Printf("  harness=%s kind=%s label=%q site=%s where=%s tags=%v paths=%d\n  native: %s\n", v.Harness, v.Kind, v.Label, v.Site, v.Where, v.Tags, v.Count, firstLine(v.ReplayOut))
				}
			}
		}
	}
	if unknownViol > 0 {
		exit = 1
	} else if len(inconclusive) > 0 {
		exit = 3
	}
	if !*noEvidence && *only == "" && !*vacuity {
		writeEvidence(*verif, spec, cfg, all, viols, inconclusive, time.Since(t0), unknownViol)
	}
	if exit == 0 {
		fmt.Printf("OK property=%s tier=%s harnesses=%d wall=%.1fs\n", *prop, *tier, len(all), time.Since(t0).Seconds())
	}
	os.Exit(exit)
}

func firstLine(s string) string {
	s = strings.TrimSpace(s)
	lines := strings.Split(s, "\n")
	for _, l := range lines {
		if strings.Contains(l, "SYM-") || strings.HasPrefix(l, "panic:") || strings.Contains(l, "DATA RACE") {
			return l
		}
	}
	if len(lines) > 0 {
		return lines[0]
	}
	return ""
}

func sanitize(s string) string {
	var sb strings.Builder
	for _, r := range s {
		if r >= 'a' && r <= 'z' || r >= 'A' && r <= 'Z' || r >= '0' && r <= '9' || r == '_' || r == '-' {
			sb.WriteRune(r)
		} else {
			sb.WriteByte('_')
		}
	}
	out := sb.String()
	if len(out) > 150 {
		out = out[:150]
	}
	return out
}

// ---- known findings ----

type knownFinding struct {
	Property, Harness, Kind, Label, Site, Tag string
	Desc                                     string
}

func loadKnown(path string) []knownFinding {
	b, err := os.ReadFile(path)
	if err != nil {
		return nil
	}
	var out []knownFinding
	for _, line := range strings.Split(string(b), "\n") {
		line = strings.TrimSpace(line)
		if !strings.HasPrefix(line, "known:") {
			continue
		}
		body := strings.TrimSpace(strings.TrimPrefix(line, "known:"))
		desc := ""
		if i := strings.Index(body, "::"); i >= 0 {
			desc = strings.TrimSpace(body[i+2:])
			body = body[:i]
		}
		k := knownFinding{Desc: desc}
		for _, f := range splitFields(body) {
			kv := strings.SplitN(f, "=", 2)
			if len(kv) != 2 {
				continue
			}
			v := strings.Trim(kv[1], "\"")
			switch kv[0] {
			case "property":
				k.Property = v
			case "harness":
				k.Harness = v
			case "kind":
				k.Kind = v
			case "label":
				k.Label = v
			case "site":
				k.Site = v
			case "tag":
				k.Tag = v
			}
		}
		out = append(out, k)
	}
	return out
}

func splitFields(s string) []string {
	var out []string
	var cur strings.Builder
	inq := false
	for _, r := range s {
		switch {
		case r == '"':
			inq = !inq
			cur.WriteRune(r)
		case r == ' ' && !inq:
			if cur.Len() > 0 {
				out = append(out, cur.String())
				cur.Reset()
			}
		default:
			cur.WriteRune(r)
		}
	}
	if cur.Len() > 0 {
		out = append(out, cur.String())
	}
	return out
}

func matchKnown(ks []knownFinding, prop string, v *Violation) *knownFinding {
	for i := range ks {
		k := &ks[i]
		if k.Property != prop || k.Harness != v.Harness || k.Kind != v.Kind {
			continue
		}
		if k.Label != "" && k.Label != v.Label {
			continue
		}
		if k.Site != "" && !strings.Contains(v.Site, k.Site) {
			continue
		}
		if k.Tag != "" {
			has := false
			for _, t := range v.Tags {
				if t == k.Tag {
					has = true
				}
			}
			if !has {
				continue
			}
		}
		return k
	}
	return nil
}

// ---- native replay ----

type replayFile struct {
	Property string            `json:"property"`
	Harness  string            `json:"harness"`
	Kind     string            `json:"kind"`
	Label    string            `json:"label"`
	Site     string            `json:"site"`
	Where    string            `json:"where"`
	Tags     []string          `json:"tags"`
	Tier     string            `json:"tier"`
	Inputs   map[string]string `json:"inputs"`
	Order    []string          `json:"order"`
}

var currentTier = "quick"
var debugParams = map[string]int64{}

func writeReplay(v *Violation, prop string) {
	rf := replayFile{Property: prop, Harness: v.Harness, Kind: v.Kind, Label: v.Label, Site: v.Site, Where: v.Where, Tags: v.Tags, Inputs: v.Inputs, Order: v.Order, Tier: currentTier}
	b, _ := json.MarshalIndent(rf, "", " ")
	os.WriteFile(v.Replay, b, 0o644)
}

type replayer struct {
	dir     string
	bin     string
	ovPath  string
	raceBin string
}

func newReplayer(verif string) (*replayer, error) {
	dir, err := os.MkdirTemp("", "verif-replay-")
	if err != nil {
		return nil, err
	}
	ov, _, err := overlayFiles(verif)
	if err != nil {
		return nil, err
	}
	// write overlay sources to real files in the temp dir
	repl := map[string]string{}
	i := 0
	for virt, content := range ov {
		real := filepath.Join(dir, fmt.Sprintf("f%d_%s", i, filepath.Base(virt)))
		i++
		if err := os.WriteFile(real, content, 0o644); err != nil {
			return nil, err
		}
		repl[virt] = real
	}
	// replay main
	mainSrc, err := os.ReadFile(filepath.Join(verif, "harness", "replaymain", "main.go"))
	if err != nil {
		return nil, err
	}
	real := filepath.Join(dir, "replaymain.go")
	os.WriteFile(real, mainSrc, 0o644)
	repl["/repo/internal/zzverif/replaymain/main.go"] = real
	ob, _ := json.Marshal(map[string]interface{}{"Replace": repl})
	ovPath := filepath.Join(dir, "overlay.json")
	os.WriteFile(ovPath, ob, 0o644)
	bin := filepath.Join(dir, "replay.bin")
	cmd := exec.Command("go", "build", "-overlay", ovPath, "-o", bin, "./internal/zzverif/replaymain")
	cmd.Dir = "/repo"
	cmd.Env = append(os.Environ(), "GOFLAGS=-mod=mod", "GOPROXY=off", "GOSUMDB=off", "GOTOOLCHAIN=local", "GOCACHE="+filepath.Join(dir, "gocache"))
	out, err := cmd.CombinedOutput()
	if err != nil {
		os.RemoveAll(dir)
		return nil, fmt.Errorf("go build: %v\n%s", err, out)
	}
	return &replayer{dir: dir, bin: bin, ovPath: ovPath}, nil
}

func (r *replayer) Close() { os.RemoveAll(r.dir) }

// Run returns whether the native run fails the way the violation says.
// runRace confirms a global-write finding: the harness is run from several goroutines at once in a
// binary built with the race detector; a reported data race is the native demonstration.
func (r *replayer) runRace(v *Violation) (bool, string) {
	if r.raceBin == "" {
		bin := filepath.Join(r.dir, "replay.race.bin")
		cmd := exec.Command("go", "build", "-race", "-overlay", r.ovPath, "-o", bin, "./internal/zzverif/replaymain")
		cmd.Dir = "/repo"
		cmd.Env = append(os.Environ(), "GOFLAGS=-mod=mod", "GOPROXY=off", "GOSUMDB=off", "GOTOOLCHAIN=local", "CGO_ENABLED=1", "GOCACHE="+filepath.Join(r.dir, "gocache"))
		if out, err := cmd.CombinedOutput(); err != nil {
			return false, fmt.Sprintf("go build -race: %v\n%s", err, out)
		}
		r.raceBin = bin
	}
	cmd := exec.Command(r.raceBin, v.Replay)
	cmd.Env = append(os.Environ(), "GOTRACEBACK=single", "SYM_CONCURRENT=1", "GORACE=halt_on_error=0")
	out, _ := cmd.CombinedOutput()
	so := string(out)
	if len(so) > 6000 {
		so = so[:6000]
	}
	return strings.Contains(so, "WARNING: DATA RACE"), so
}

func (r *replayer) Run(v *Violation) (bool, string) {
	if v.Kind == "global-write" {
		return r.runRace(v)
	}
	cmd := exec.Command(r.bin, v.Replay)
	cmd.Env = append(os.Environ(), "GOTRACEBACK=single")
	done := make(chan struct{})
	var out []byte
	var err error
	go func() { out, err = cmd.CombinedOutput(); close(done) }()
	select {
	case <-done:
	case <-time.After(60 * time.Second):
		cmd.Process.Kill()
		<-done
		return false, "native replay timed out"
	}
	so := string(out)
	if err == nil {
		return false, "native run passed: " + so
	}
	switch v.Kind {
	case "assert":
		return strings.Contains(so, "SYM-ASSERT-FAILED") && strings.Contains(so, "label="+strconv.Quote(v.Label)), so
	case "panic":
		return strings.Contains(so, "panic:") || strings.Contains(so, "SYM-PANIC"), so
	case "frozen-write":
		return strings.Contains(so, "SYM-FROZEN-MODIFIED"), so
	case "nonfinite":
		return strings.Contains(so, "SYM-NONFINITE") || strings.Contains(so, "SYM-ASSERT-FAILED"), so
	case "alloc":
		return strings.Contains(so, "SYM-ALLOC-EXCEEDED") || strings.Contains(so, "out of memory") || strings.Contains(so, "len out of range") || strings.Contains(so, "cap out of range"), so
	case "global-write":
		return strings.Contains(so, "SYM-GLOBAL-MODIFIED"), so
	}
	return false, so
}

// concretiseUF: the violation was found with float arithmetic uninterpreted, so the solver's ordinates
// need not distinguish the two sides under IEEE arithmetic. Keep the model's shape/integer inputs and
// try generic ordinate assignments; the first one that fails natively replaces the replay file.
func (r *replayer) concretiseUF(v *Violation, prop string) {
	orig := v.Inputs
	seed := uint64(88172645463325252)
	next := func() uint64 { seed ^= seed << 13; seed ^= seed >> 7; seed ^= seed << 17; return seed }
	attempts := 24
	if v.XDomain {
		attempts = 60
	}
	for attempt := 0; attempt < attempts; attempt++ {
		in := map[string]string{}
		for k, val := range orig {
			in[k] = val
		}
		for i, n := range v.FloatInputs {
			var f float64
			switch {
			case attempt == 0:
				f = float64(3*i + 1 + (i*i)%7)
			case attempt%2 == 1:
				f = float64(int64(next()%199) - 99)
			default:
				f = float64(int64(next()%2000001)-1000000) / 8
			}
			if v.XDomain {
				// grid inputs are read as rationals natively: small integers
				switch {
				case attempt == 0:
					in[n] = fmt.Sprint(3*i + 1 + (i*i)%7)
				case attempt%3 == 1:
					in[n] = fmt.Sprint(int64(next()%9) - 4)
				case attempt%3 == 2:
					in[n] = fmt.Sprint(int64(next()%41) - 20)
				default:
					in[n] = fmt.Sprint(int64(next()%2001) - 1000)
				}
				continue
			}
			in[n] = fmt.Sprintf("0x%x", math.Float64bits(f))
		}
		v.Inputs = in
		writeReplay(v, prop)
		ok, out := r.Run(v)
		if ok {
			v.Reproduced, v.ReplayOut = true, out
			v.Detail += fmt.Sprintf(" [ordinates concretised for IEEE arithmetic after %d attempt(s); shape inputs from the solver model]", attempt+1)
			return
		}
	}
	v.Inputs = orig
	writeReplay(v, prop)
}

func replayOnly(verif, path string) int {
	b, err := os.ReadFile(path)
	if err != nil {
		fmt.Println(err)
		return 2
	}
	var rf replayFile
	json.Unmarshal(b, &rf)
	rp, err := newReplayer(verif)
	if err != nil {
		fmt.Println(err)
		return 2
	}
	defer rp.Close()
	v := &Violation{Harness: rf.Harness, Kind: rf.Kind, Label: rf.Label, Replay: path}
	ok, out := rp.Run(v)
	fmt.Println(out)
	if ok {
		fmt.Printf("VIOLATION property=%s replay=%s\n", rf.Property, path)
		return 1
	}
	fmt.Println("replay did not fail")
	return 0
}

// ---- evidence ----

func writeEvidence(verif string, spec CheckSpec, cfg Config, all []*HarnessStats, viols []*Violation, inconclusive []string, wall time.Duration, newViol int) {
	paths, nontriv, obl, dis, triv, sat, unsat, unk := 0, 0, 0, 0, 0, 0, 0, 0
	var solverT time.Duration
	funcsRepo, funcsStd := map[string]bool{}, map[string]bool{}
	var hs []map[string]interface{}
	var samples []interface{}
	for _, st := range all {
		paths += st.Paths
		nontriv += st.NonTrivial
		obl += st.Obligations
		dis += st.Discharged
		triv += st.Trivial
		sat += st.Sat
		unsat += st.Unsat
		unk += st.Unknown
		solverT += st.SolverTime
		for f := range st.Funcs {
			if strings.Contains(f, repoMod) && !strings.Contains(f, "zzverif") && !strings.Contains(f, "zz_verif") && !strings.Contains(f, "ZZ") {
				funcsRepo[strings.ReplaceAll(f, repoMod, "geom")] = true
			} else if !strings.Contains(f, "zzverif") {
				funcsStd[f] = true
			}
		}
		h := map[string]interface{}{
			"harness": st.Name, "domain": st.Domain, "paths": st.Paths, "paths_with_solver_discharged_assertion": st.NonTrivial,
			"obligations": st.Obligations, "discharged": st.Discharged, "discharged_by_constant_folding": st.Trivial,
			"solver_queries": map[string]int{"sat": st.Sat, "unsat": st.Unsat, "unknown": st.Unknown},
			"solver_time_s":  round2(st.SolverTime.Seconds()), "wall_s": round2(st.Wall.Seconds()),
			"bounds": st.Bounds, "cover_witnesses": st.Covers, "cut_paths": st.Cuts, "path_ends": st.Ends,
			"max_instructions_on_a_path": st.MaxSteps, "unknown_branches_kept_both_sides": st.UnknownBranches,
			"uninterpreted_float_ops": st.UFOps, "ideal_arithmetic_ops": st.IdealOps, "ideal_arithmetic_comparisons": st.IdealCmps,
			"rn53_rounded_ops": st.RoundedOps, "delta_model_enclosed_ops": st.EnclosedOps, "undecided_obligations(bug-hunting harness only)": st.Undecided, "permitted_panics(MayPanic)": st.PermittedPanics,
		}
		if len(st.Replaced) > 0 {
			var rs []string
			for k := range st.Replaced {
				rs = append(rs, k)
			}
			sort.Strings(rs)
			h["functions_replaced_by_harness_summaries"] = rs
		}
		if len(st.InexactSites) > 0 {
			h["inexact_sites"] = st.InexactSites
		}
		hs = append(hs, h)
		for _, s := range st.Samples {
			samples = append(samples, s)
		}
	}
	var vs []map[string]interface{}
	for _, v := range viols {
		vs = append(vs, map[string]interface{}{"harness": v.Harness, "kind": v.Kind, "label": v.Label, "site": v.Site, "where": v.Where, "tags": v.Tags,
			"paths": v.Count, "reproduced_natively": v.Reproduced, "known_finding": v.Known, "replay": v.Replay, "inputs": v.Inputs})
		samples = append(samples, map[string]interface{}{"violation": v.Label, "inputs": v.Inputs})
	}
	if len(samples) == 0 {
		samples = append(samples, "no path completed")
	}
	keys := func(m map[string]bool) []string {
		var out []string
		for k := range m {
			out = append(out, k)
		}
		sort.Strings(out)
		return out
	}
	expl := spec.Explanation + " Deciding step: every obligation (harness assertion, bounds/nil/divide/type-assertion/explicit panic site, allocation bound, frozen-memory write) is an SMT query over the symbolic inputs of the path; unsat = holds for all values inside the bounds, sat = concrete counterexample that is replayed natively before being reported. Encoding regenerated from /repo's working tree by go/ssa on this run."
	cov := map[string]interface{}{
		"explanation":         expl,
		"evaluations":         paths,
		"distinct_nontrivial": nontriv,
		"rule":                "evaluations = distinct feasible control-flow paths of harness+library explored (each covers all values of its symbolic inputs); a path is non-trivial when at least one of its obligations was not constant-folded and had to be discharged by the solver",
		"obligations":         obl,
		"discharged":          dis,
		"discharged_trivially": triv,
		"solver_queries":      map[string]int{"sat": sat, "unsat": unsat, "unknown": unk},
		"solver_time_s":       round2(solverT.Seconds()),
		"solver":              cfg.Solver.String(),
		"per_query_timeout_ms": cfg.TimeoutMs,
		"harnesses":           hs,
		"functions_encoded_repo": keys(funcsRepo),
		"functions_encoded_std_count": len(funcsStd),
		"samples":             samples,
		"violations":          vs,
		"inconclusive":        inconclusive,
		"outside_the_claim":   spec.Outside,
		"exhaustive":          false,
	}
	assumptions := append([]string{
		"go/ssa (x/tools v0.29.0) faithfully represents the compiled Go program; the gosym interpreter implements SSA instruction semantics (validated by native replay of counterexamples and ./check selftest)",
		"z3 answers are correct; any unknown/timeout/(error makes the run INCONCLUSIVE (exit 3), never success",
		"append growth follows runtime.growslice of go1.23 amd64 (size classes); fmt.Sprintf/Errorf results are opaque strings/errors",
	}, spec.Assumptions...)
	ev := map[string]interface{}{
		"property_id": spec.Property, "tier": cfg.Tier, "seed": cfg.Seed, "level": "other",
		"coverage": cov, "assumptions": assumptions, "wall_s": round2(wall.Seconds()), "violations": newViol,
	}
	b, _ := json.MarshalIndent(ev, "", " ")
	os.MkdirAll(filepath.Join(verif, "evidence"), 0o755)
	os.WriteFile(filepath.Join(verif, "evidence", spec.Property+".json"), b, 0o644)
}

func round2(f float64) float64 { return float64(int(f*100+0.5)) / 100 }
