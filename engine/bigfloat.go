package main

// Model of math/big.Float in domain X: value = exact number (Int/Real term) + CONCRETE precision per
// receiver, with the documented rules: SetFloat64 on a zero-precision receiver sets precision 53;
// Add/Sub/Mul round the exact result to the receiver's precision (a zero-precision receiver takes
// the larger operand precision); rounding mode ToNearestEven. Rounding is exact when the tracked
// bound shows the value fits, otherwise the exact RN model rnP (integer-valued results) applies.
// The model state lives in the struct's own fields: prec (field 0) and the value in the mant slot (5).

import (
	"go/types"
	"math/big"

	"golang.org/x/tools/go/ssa"
)

const (
	bfPrec = 0
	bfMant = 5
)

func (s *State) bfStruct(p Ptr) *StructV {
	if p.IsNil() {
		s.panicReached("nil pointer dereference", "big.Float")
	}
	get, _ := s.cell(s.resolve(p.obj), p.path)
	sv, ok := get().(*StructV)
	if !ok || len(sv.f) != 7 {
		panic(abortf("big.Float model: unexpected representation"))
	}
	return sv
}

func (s *State) bfGet(p Ptr) (*Term, int) {
	sv := s.bfStruct(p)
	prec := int(sv.f[bfPrec].(*Term).U)
	if t, ok := sv.f[bfMant].(*Term); ok {
		return t, prec
	}
	return s.ctx.IntConst(0), prec
}

func (s *State) bfSet(p Ptr, v *Term, prec int) {
	s.eng.noteWrite(s, p.obj)
	o := s.writable(p.obj)
	get, _ := s.cell(o, p.path)
	sv := get().(*StructV)
	sv.f[bfPrec] = s.ctx.BVConst(uint64(prec), 32)
	sv.f[bfMant] = v
}

// bfRound rounds the exact value r to prec bits.
func (s *State) bfRound(r *Term, prec int) *Term {
	if r.IsConst() {
		return r // constants in these harnesses are small dyadics
	}
	fi := s.info(r)
	if fi.exact && fi.scale == 0 && fi.lo != nil {
		m := new(big.Rat).Abs(fi.lo)
		if h := new(big.Rat).Abs(fi.hi); h.Cmp(m) > 0 {
			m = h
		}
		bits := new(big.Int).Div(m.Num(), m.Denom()).BitLen()
		if bits <= prec {
			return r
		}
		if r.Sort.K == KInt {
			return s.rnP(r, fi, prec)
		}
	}
	if s.eng.cfg.DeltaModel {
		return s.enclose(r, fi, prec)
	}
	s.run.idealOps++
	s.run.noteInexact(s.site())
	return r
}

// exactArith computes a op b without float64 rounding (the big.Float result before rounding).
func (s *State) exactArith(op byte, a, b *Term) *Term {
	c := s.ctx
	ia, ib := s.info(a), s.info(b)
	n := &FInfo{exact: ia.exact && ib.exact, scale: -1}
	var r *Term
	switch op {
	case '+', '-':
		if op == '+' {
			r = c.Add(a, b)
		} else {
			r = c.Sub(a, b)
		}
		if ia.scale >= 0 && ib.scale >= 0 {
			n.scale = ia.scale
			if ib.scale > n.scale {
				n.scale = ib.scale
			}
		}
		if ia.lo != nil && ib.lo != nil {
			if op == '+' {
				n.lo, n.hi = new(big.Rat).Add(ia.lo, ib.lo), new(big.Rat).Add(ia.hi, ib.hi)
			} else {
				n.lo, n.hi = new(big.Rat).Sub(ia.lo, ib.hi), new(big.Rat).Sub(ia.hi, ib.lo)
			}
		}
	default:
		r = c.Mul(a, b)
		if ia.scale >= 0 && ib.scale >= 0 {
			n.scale = ia.scale + ib.scale
		}
		if ia.lo != nil && ib.lo != nil {
			ps := []*big.Rat{new(big.Rat).Mul(ia.lo, ib.lo), new(big.Rat).Mul(ia.lo, ib.hi), new(big.Rat).Mul(ia.hi, ib.lo), new(big.Rat).Mul(ia.hi, ib.hi)}
			n.lo, n.hi = ps[0], ps[0]
			for _, p := range ps[1:] {
				if p.Cmp(n.lo) < 0 {
					n.lo = p
				}
				if p.Cmp(n.hi) > 0 {
					n.hi = p
				}
			}
		}
	}
	s.setInfo(r, n)
	return r
}

func init() {
	needX := func(s *State) {
		if s.eng.cfg.Domain != DomainX {
			panic(abortf("math/big.Float is modelled in domain X only"))
		}
	}
	reg("math/big.NewFloat", func(s *State, fn *ssa.Function, a []Value) Value {
		needX(s)
		t := fn.Signature.Results().At(0).Type().(*types.Pointer).Elem()
		o := s.newObject(s.zero(t), "big.Float")
		p := Ptr{obj: o}
		s.bfSet(p, a[0].(*Term), 53)
		return p
	})
	reg("(*math/big.Float).SetFloat64", func(s *State, fn *ssa.Function, a []Value) Value {
		needX(s)
		p := a[0].(Ptr)
		_, prec := s.bfGet(p)
		if prec == 0 {
			prec = 53
		}
		s.bfSet(p, s.bfRound(a[1].(*Term), prec), prec)
		return p
	})
	reg("(*math/big.Float).SetPrec", func(s *State, fn *ssa.Function, a []Value) Value {
		needX(s)
		p := a[0].(Ptr)
		v, _ := s.bfGet(p)
		np := int(argInt(a[1]))
		if np == 0 {
			s.bfSet(p, s.ctx.IntConst(0), 0)
			return p
		}
		s.bfSet(p, s.bfRound(v, np), np)
		return p
	})
	reg("(*math/big.Float).Prec", func(s *State, fn *ssa.Function, a []Value) Value {
		_, prec := s.bfGet(a[0].(Ptr))
		return s.ctx.BVConst(uint64(prec), 64)
	})
	arith := func(op byte) intrinsic {
		return func(s *State, fn *ssa.Function, a []Value) Value {
			needX(s)
			z, x, y := a[0].(Ptr), a[1].(Ptr), a[2].(Ptr)
			xv, xp := s.bfGet(x)
			yv, yp := s.bfGet(y)
			_, zp := s.bfGet(z)
			if zp == 0 {
				zp = xp
				if yp > zp {
					zp = yp
				}
			}
			if zp == 0 {
				panic(abortf("big.Float arithmetic on zero-precision operands"))
			}
			r := s.exactArith(op, xv, yv)
			s.bfSet(z, s.bfRound(r, zp), zp)
			return z
		}
	}
	reg("(*math/big.Float).Add", arith('+'))
	reg("(*math/big.Float).Sub", arith('-'))
	reg("(*math/big.Float).Mul", arith('*'))
	reg("(*math/big.Float).Sign", func(s *State, fn *ssa.Function, a []Value) Value {
		needX(s)
		v, _ := s.bfGet(a[0].(Ptr))
		c := s.ctx
		z := s.xzero(v)
		return c.Ite(c.Lt(v, z), c.BVConst(^uint64(0), 64), c.Ite(c.Eq(v, z), c.BVConst(0, 64), c.BVConst(1, 64)))
	})
	reg("(*math/big.Float).IsInf", func(s *State, fn *ssa.Function, a []Value) Value {
		return s.ctx.False()
	})
	reg("(*math/big.Float).Cmp", func(s *State, fn *ssa.Function, a []Value) Value {
		needX(s)
		x, _ := s.bfGet(a[0].(Ptr))
		y, _ := s.bfGet(a[1].(Ptr))
		c := s.ctx
		return c.Ite(c.Lt(x, y), c.BVConst(^uint64(0), 64), c.Ite(c.Eq(x, y), c.BVConst(0, 64), c.BVConst(1, 64)))
	})
}
