package main

// float64 value domains.
//   DomainB: a float64 is its 64-bit pattern (BV64). Moves, comparisons, min/max, abs, neg and
//            classification are exact; + - * / sqrt on non-constant operands are uninterpreted
//            functions (domain "U" of DESIGN.md §3).
//   DomainX: a float64 is an exact number (Int or Real term) with side information that tracks
//            whether the IEEE result provably equals it ("exact") or whether it is the ideal
//            real value of the formula ("ideal").

import (
	"fmt"
	"go/token"
	"math"
	"math/big"
)

type Domain int

const (
	DomainB Domain = iota
	DomainX
	DomainK
)

// DomainK: a non-NaN float64 is its order code, an Int in [-M-1, M] (M = bits of +Inf):
// code(x) = bits(x) for sign-bit-clear values and -(bits(x)&abs)-1 otherwise. The map is a
// bijection between non-NaN bit patterns and the interval, strictly monotone for the IEEE order
// refined by -0 < +0. Moves, comparisons, min/max, neg, abs, Inf constants are exact; arithmetic
// is not available (aborts). Used where a property is purely about order (C08).
var kM = new(big.Int).SetUint64(expMask)

func kCode(f float64) *big.Int {
	b := math.Float64bits(f)
	if b&signBit != 0 {
		v := new(big.Int).SetUint64(b & absMask)
		v.Neg(v)
		return v.Sub(v, big.NewInt(1))
	}
	return new(big.Int).SetUint64(b)
}

func kBits(code *big.Int) uint64 {
	if code.Sign() < 0 {
		v := new(big.Int).Neg(code)
		v.Sub(v, big.NewInt(1))
		return v.Uint64() | signBit
	}
	return code.Uint64()
}

func (s *State) kBothZero(a, b *Term) *Term {
	c := s.ctx
	z := func(x *Term) *Term { return c.Or(c.Eq(x, c.IntConst(0)), c.Eq(x, c.IntConst(-1))) }
	return c.And(z(a), z(b))
}

func (d Domain) String() string {
	if d == DomainB {
		return "B/U (bit patterns; arithmetic uninterpreted)"
	}
	if d == DomainK {
		return "K (order codes of non-NaN float64 as integers; comparisons/min/max exact, no arithmetic)"
	}
	return "X (exact integer/dyadic; ideal reals after inexact ops)"
}

type FInfo struct {
	enclosed bool // value is a sound enclosure of the IEEE result (delta model)
	exact  bool
	scale  int // value * 2^scale is an integer (when scale >= 0 known); -1 unknown
	lo, hi *big.Rat
}

const (
	signBit = uint64(1) << 63
	absMask = signBit - 1
	expMask = uint64(0x7FF) << 52
)

func (s *State) fconstFloat(f float64) *Term {
	if s.eng.cfg.Domain == DomainB {
		return s.ctx.BVConst(math.Float64bits(f), 64)
	}
	if s.eng.cfg.Domain == DomainK {
		if math.IsNaN(f) {
			panic(abortf("NaN constant in domain K"))
		}
		return s.ctx.IntConstBig(kCode(f))
	}
	if math.IsNaN(f) || math.IsInf(f, 0) {
		// no non-finite values in X; represent by a distinguished huge constant and flag
		q := new(big.Rat).SetInt(new(big.Int).Lsh(big.NewInt(1), 2000))
		if math.IsInf(f, -1) {
			q.Neg(q)
		}
		t := s.ctx.RealConst(q)
		return t
	}
	q := new(big.Rat).SetFloat64(f)
	var t *Term
	if q.IsInt() {
		t = s.ctx.IntConstBig(q.Num())
	} else {
		t = s.ctx.RealConst(q)
	}
	return t
}

// ----- DomainB helpers -----

// knownNonNaN: syntactic fact derived from input assumptions (sound under the path condition).
func (s *State) knownNonNaN(x *Term) bool {
	if x.IsConst() {
		return x.U&absMask <= expMask
	}
	if s.nonNaN[x] {
		return true
	}
	if x.Op == OpIte && s.knownNonNaN(x.Args[1]) && s.knownNonNaN(x.Args[2]) {
		s.nonNaN[x] = true
		return true
	}
	return false
}

func (s *State) bIsNaN(x *Term) *Term {
	c := s.ctx
	if s.knownNonNaN(x) {
		return c.False()
	}
	return c.BVUlt(c.BVConst(expMask, 64), c.BVAnd(x, c.BVConst(absMask, 64)))
}
func (s *State) bIsZero(x *Term) *Term {
	c := s.ctx
	if x.Op == OpIte {
		return c.Ite(x.Args[0], s.bIsZero(x.Args[1]), s.bIsZero(x.Args[2]))
	}
	return c.Eq(c.BVAnd(x, c.BVConst(absMask, 64)), c.BVConst(0, 64))
}
func (s *State) bIsInf(x *Term, sign int) *Term {
	c := s.ctx
	pos := c.Eq(x, c.BVConst(expMask, 64))
	neg := c.Eq(x, c.BVConst(expMask|signBit, 64))
	switch {
	case sign > 0:
		return pos
	case sign < 0:
		return neg
	}
	return c.Or(pos, neg)
}

// order-preserving key: unsigned comparison of keys == float comparison for non-NaN, -0 < +0
func (s *State) bKey(x *Term) *Term {
	c := s.ctx
	if x.IsConst() {
		if x.U&signBit != 0 {
			return c.BVConst(^x.U, 64)
		}
		return c.BVConst(x.U|signBit, 64)
	}
	if x.Op == OpIte {
		// keys are computed on the leaves only, so min/max chains compare plain unsigned keys
		if k, ok := s.keyMemo[x]; ok {
			return k
		}
		k := c.Ite(x.Args[0], s.bKey(x.Args[1]), s.bKey(x.Args[2]))
		s.keyMemo[x] = k
		return k
	}
	neg := c.Eq(c.Extract(x, 63, 63), c.BVConst(1, 1))
	return c.Ite(neg, c.BVNot(x), c.BVOr(x, c.BVConst(signBit, 64)))
}

func (s *State) bEq(x, y *Term) *Term {
	c := s.ctx
	return c.And(c.Not(s.bIsNaN(x)), c.Not(s.bIsNaN(y)), c.Or(c.Eq(x, y), c.And(s.bIsZero(x), s.bIsZero(y))))
}
func (s *State) bLt(x, y *Term) *Term {
	c := s.ctx
	return c.And(c.Not(s.bIsNaN(x)), c.Not(s.bIsNaN(y)), c.Not(c.And(s.bIsZero(x), s.bIsZero(y))), c.BVUlt(s.bKey(x), s.bKey(y)))
}

func (s *State) fneg(x *Term) *Term {
	if s.eng.cfg.Domain == DomainB {
		return s.ctx.BVXor(x, s.ctx.BVConst(signBit, 64))
	}
	if s.eng.cfg.Domain == DomainK {
		return s.ctx.Sub(s.ctx.Neg(x), s.ctx.IntConst(1))
	}
	r := s.ctx.Neg(x)
	if fi := s.finfo[x]; fi != nil {
		n := &FInfo{exact: fi.exact, scale: fi.scale}
		if fi.lo != nil {
			n.lo = new(big.Rat).Neg(fi.hi)
			n.hi = new(big.Rat).Neg(fi.lo)
		}
		s.setInfo(r, n)
	}
	return r
}

func (s *State) fabs(x *Term) *Term {
	if s.eng.cfg.Domain == DomainB {
		return s.ctx.BVAnd(x, s.ctx.BVConst(absMask, 64))
	}
	if s.eng.cfg.Domain == DomainK {
		return s.ctx.Ite(s.ctx.Lt(x, s.ctx.IntConst(0)), s.ctx.Sub(s.ctx.Neg(x), s.ctx.IntConst(1)), x)
	}
	c := s.ctx
	r := c.Ite(c.Lt(x, s.xzero(x)), c.Neg(x), x)
	if !r.IsConst() && r != x {
		if s.absOf == nil {
			s.absOf = map[*Term]*Term{}
		}
		s.absOf[r] = x
	}
	if fi := s.finfo[x]; fi != nil {
		n := &FInfo{exact: fi.exact, scale: fi.scale}
		if fi.lo != nil {
			a, b := new(big.Rat).Abs(fi.lo), new(big.Rat).Abs(fi.hi)
			if a.Cmp(b) < 0 {
				a, b = b, a
			}
			n.hi = a
			n.lo = new(big.Rat)
		}
		s.setInfo(r, n)
	}
	return r
}

func (s *State) xzero(like *Term) *Term {
	if like.Sort.K == KInt {
		return s.ctx.IntConst(0)
	}
	return s.ctx.RealConst(new(big.Rat))
}

func (s *State) fmin(x, y *Term) *Term {
	c := s.ctx
	if s.eng.cfg.Domain == DomainK {
		return c.Ite(c.Lt(y, x), y, x)
	}
	if s.eng.cfg.Domain == DomainX {
		r := c.Ite(c.Lt(y, x), y, x)
		s.joinInfo(r, x, y)
		return r
	}
	// Go math.Min / builtin min: -Inf wins, NaN propagates, -0 < +0
	nan := c.BVConst(0x7FF8000000000001, 64)
	anyNaN := c.Or(s.bIsNaN(x), s.bIsNaN(y))
	lt := c.BVUlt(s.bKey(y), s.bKey(x))
	return c.Ite(anyNaN, nan, c.Ite(lt, y, x))
}

func (s *State) fmax(x, y *Term) *Term {
	c := s.ctx
	if s.eng.cfg.Domain == DomainK {
		return c.Ite(c.Lt(x, y), y, x)
	}
	if s.eng.cfg.Domain == DomainX {
		r := c.Ite(c.Lt(x, y), y, x)
		s.joinInfo(r, x, y)
		return r
	}
	nan := c.BVConst(0x7FF8000000000001, 64)
	anyNaN := c.Or(s.bIsNaN(x), s.bIsNaN(y))
	lt := c.BVUlt(s.bKey(x), s.bKey(y))
	return c.Ite(anyNaN, nan, c.Ite(lt, y, x))
}

func (s *State) fbinop(op token.Token, a, b *Term) Value {
	if s.eng.cfg.Domain == DomainX {
		return s.xbinop(op, a, b)
	}
	c := s.ctx
	if s.eng.cfg.Domain == DomainK {
		bz := s.kBothZero(a, b)
		switch op {
		case token.EQL:
			return c.Or(c.Eq(a, b), bz)
		case token.NEQ:
			return c.Not(c.Or(c.Eq(a, b), bz))
		case token.LSS:
			return c.And(c.Lt(a, b), c.Not(bz))
		case token.GTR:
			return c.And(c.Lt(b, a), c.Not(bz))
		case token.LEQ:
			return c.Or(c.Le(a, b), bz)
		case token.GEQ:
			return c.Or(c.Le(b, a), bz)
		}
		panic(abortf("float arithmetic (%v) is not available in domain K", op))
	}
	switch op {
	case token.EQL:
		return s.bEq(a, b)
	case token.NEQ:
		return c.Not(s.bEq(a, b))
	case token.LSS:
		return s.bLt(a, b)
	case token.GTR:
		return s.bLt(b, a)
	case token.LEQ:
		return c.Or(s.bLt(a, b), s.bEq(a, b))
	case token.GEQ:
		return c.Or(s.bLt(b, a), s.bEq(a, b))
	}
	if a.IsConst() && b.IsConst() {
		x, y := math.Float64frombits(a.U), math.Float64frombits(b.U)
		var r float64
		switch op {
		case token.ADD:
			r = x + y
		case token.SUB:
			r = x - y
		case token.MUL:
			r = x * y
		case token.QUO:
			r = x / y
		default:
			panic(abortf("float op %v", op))
		}
		return c.BVConst(math.Float64bits(r), 64)
	}
	s.run.ufOps++
	switch op {
	case token.ADD:
		if a.id > b.id { // commutativity by canonical argument order
			a, b = b, a
		}
		return c.UF("f64.add", BV(64), a, b)
	case token.SUB:
		return c.UF("f64.sub", BV(64), a, b)
	case token.MUL:
		if a.id > b.id {
			a, b = b, a
		}
		return c.UF("f64.mul", BV(64), a, b)
	case token.QUO:
		return c.UF("f64.div", BV(64), a, b)
	}
	panic(abortf("float op %v", op))
}

func (s *State) fsqrt(x *Term) *Term {
	c := s.ctx
	if s.eng.cfg.Domain == DomainB {
		if x.IsConst() {
			return c.BVConst(math.Float64bits(math.Sqrt(math.Float64frombits(x.U))), 64)
		}
		s.run.ufOps++
		return c.UF("f64.sqrt", BV(64), x)
	}
	if x.IsConst() {
		// exact square root of a rational square, else symbolic
		if x.Q.Sign() >= 0 {
			n, d := new(big.Int).Sqrt(x.Q.Num()), new(big.Int).Sqrt(x.Q.Denom())
			if new(big.Int).Mul(n, n).Cmp(x.Q.Num()) == 0 && new(big.Int).Mul(d, d).Cmp(x.Q.Denom()) == 0 {
				r := s.fconstRat(new(big.Rat).SetFrac(n, d))
				return r
			}
		}
	}
	if r, ok := s.sqrtMemo[x]; ok {
		return r // the same radicand has the same root
	}
	if !sumOfSquares(x, 0) {
		nonneg := c.Le(s.xzero(x), x)
		s.checkNonFinite(nonneg, "sqrt of negative value")
	}
	s.fresh++
	r := c.Var(fmt.Sprintf("sqrt!%d", s.fresh), SReal)
	s.assumeRaw(c.Le(c.RealConst(new(big.Rat)), r))
	s.assumeRaw(c.Eq(c.Mul(r, r), c.ToReal(x)))
	if s.sqrtOf == nil {
		s.sqrtOf = map[*Term]*Term{}
	}
	s.sqrtOf[r] = x
	if s.sqrtMemo == nil {
		s.sqrtMemo = map[*Term]*Term{}
	}
	s.sqrtMemo[x] = r
	n := &FInfo{exact: false, scale: -1}
	if fi := s.finfo[x]; fi != nil && fi.hi != nil {
		// sqrt(hi) <= hi+1
		n.lo = new(big.Rat)
		n.hi = new(big.Rat).Add(fi.hi, big.NewRat(1, 1))
	}
	s.setInfo(r, n)
	s.run.idealOps++
	return r
}

func (s *State) fconstRat(q *big.Rat) *Term {
	if q.IsInt() {
		return s.ctx.IntConstBig(q.Num())
	}
	return s.ctx.RealConst(q)
}

func (s *State) i2f(t *Term, unsigned bool) *Term {
	c := s.ctx
	if s.eng.cfg.Domain == DomainB {
		if t.IsConst() {
			if unsigned {
				return c.BVConst(math.Float64bits(float64(t.U)), 64)
			}
			return c.BVConst(math.Float64bits(float64(sext(t.U, t.Sort.W))), 64)
		}
		s.run.ufOps++
		name := fmt.Sprintf("i%d.to.f64", t.Sort.W)
		if unsigned {
			name = "u" + name
		}
		return c.UF(name, BV(64), t)
	}
	var r *Term
	if unsigned {
		r = c.BV2Int(t)
	} else {
		r = c.BV2IntSigned(t)
	}
	if r.IsConst() {
		return r
	}
	s.setInfo(r, &FInfo{exact: t.Sort.W <= 32, scale: 0})
	return r
}

func (s *State) f2i(t *Term, w int, unsigned bool) *Term {
	c := s.ctx
	if s.eng.cfg.Domain == DomainB {
		if t.IsConst() {
			f := math.Float64frombits(t.U)
			if unsigned {
				return c.BVConst(uint64(f), w)
			}
			return c.BVConst(uint64(int64(f)), w)
		}
		s.run.ufOps++
		return c.UF(fmt.Sprintf("f64.to.i%d", w), BV(w), t)
	}
	// truncation toward zero
	var fl *Term
	if t.Sort.K == KInt {
		fl = t
	} else {
		neg := c.Lt(t, c.RealConst(new(big.Rat)))
		fl = c.Ite(neg, c.Neg(c.Floor(c.Neg(t))), c.Floor(t))
	}
	return c.Int2BV(fl, w)
}

// ----- DomainX -----

func (s *State) setInfo(t *Term, fi *FInfo) {
	if t.IsConst() {
		return
	}
	if _, ok := s.finfo[t]; !ok {
		s.finfo[t] = fi
	}
}

func (s *State) info(t *Term) *FInfo {
	if t.IsConst() {
		q := t.Q
		sc := 0
		d := new(big.Int).Set(q.Denom())
		for d.Cmp(big.NewInt(1)) > 0 && d.Bit(0) == 0 {
			d.Rsh(d, 1)
			sc++
		}
		if d.Cmp(big.NewInt(1)) != 0 {
			sc = -1
		}
		return &FInfo{exact: true, scale: sc, lo: q, hi: q}
	}
	if fi, ok := s.finfo[t]; ok {
		return fi
	}
	return &FInfo{exact: false, scale: -1}
}

func (s *State) joinInfo(r, x, y *Term) {
	a, b := s.info(x), s.info(y)
	n := &FInfo{exact: a.exact && b.exact, scale: -1}
	if a.scale >= 0 && b.scale >= 0 {
		n.scale = a.scale
		if b.scale > n.scale {
			n.scale = b.scale
		}
	}
	if a.lo != nil && b.lo != nil {
		n.lo, n.hi = a.lo, a.hi
		if b.lo.Cmp(n.lo) < 0 {
			n.lo = b.lo
		}
		if b.hi.Cmp(n.hi) > 0 {
			n.hi = b.hi
		}
	}
	s.setInfo(r, n)
}

var two53 = new(big.Rat).SetInt(new(big.Int).Lsh(big.NewInt(1), 53))

// fits reports whether every value in [lo,hi] with the given binary scale is exactly representable.
func fits(lo, hi *big.Rat, scale int) bool {
	if lo == nil || hi == nil || scale < 0 || scale > 900 {
		return false
	}
	m := new(big.Rat).Abs(lo)
	if h := new(big.Rat).Abs(hi); h.Cmp(m) > 0 {
		m = h
	}
	m.Mul(m, new(big.Rat).SetInt(new(big.Int).Lsh(big.NewInt(1), uint(scale))))
	return m.Cmp(two53) <= 0
}

func (s *State) xbinop(op token.Token, a, b *Term) Value {
	c := s.ctx
	ia, ib := s.info(a), s.info(b)
	switch op {
	case token.EQL, token.NEQ, token.LSS, token.LEQ, token.GTR, token.GEQ:
		if !((ia.exact || ia.enclosed) && (ib.exact || ib.enclosed)) {
			s.run.idealCmps++
		}
		switch op {
		case token.EQL:
			return c.Eq(a, b)
		case token.NEQ:
			return c.Not(c.Eq(a, b))
		case token.LSS:
			return c.Lt(a, b)
		case token.LEQ:
			return c.Le(a, b)
		case token.GTR:
			return c.Lt(b, a)
		default:
			return c.Le(b, a)
		}
	}
	var r *Term
	n := &FInfo{scale: -1}
	switch op {
	case token.ADD, token.SUB:
		if op == token.ADD {
			r = c.Add(a, b)
		} else {
			r = c.Sub(a, b)
		}
		if ia.scale >= 0 && ib.scale >= 0 {
			n.scale = ia.scale
			if ib.scale > n.scale {
				n.scale = ib.scale
			}
		}
		if ia.lo != nil && ib.lo != nil {
			if op == token.ADD {
				n.lo, n.hi = new(big.Rat).Add(ia.lo, ib.lo), new(big.Rat).Add(ia.hi, ib.hi)
			} else {
				n.lo, n.hi = new(big.Rat).Sub(ia.lo, ib.hi), new(big.Rat).Sub(ia.hi, ib.lo)
			}
		}
	case token.MUL:
		r = s.mulPaired(a, b)
		if ia.scale >= 0 && ib.scale >= 0 {
			n.scale = ia.scale + ib.scale
		}
		if ia.lo != nil && ib.lo != nil {
			ps := []*big.Rat{new(big.Rat).Mul(ia.lo, ib.lo), new(big.Rat).Mul(ia.lo, ib.hi), new(big.Rat).Mul(ia.hi, ib.lo), new(big.Rat).Mul(ia.hi, ib.hi)}
			n.lo, n.hi = ps[0], ps[0]
			for _, p := range ps[1:] {
				if p.Cmp(n.lo) < 0 {
					n.lo = p
				}
				if p.Cmp(n.hi) > 0 {
					n.hi = p
				}
			}
		}
	case token.QUO:
		nz := c.Not(c.Eq(b, s.xzero(b)))
		s.checkNonFinite(nz, "float division by zero")
		r = c.Div(a, b)
		// division by a constant power of two keeps exactness
		if b.IsConst() && ia.scale >= 0 {
			q := new(big.Rat).Abs(b.Q)
			if q.IsInt() && q.Num().BitLen() > 0 && new(big.Int).And(q.Num(), new(big.Int).Sub(q.Num(), big.NewInt(1))).Sign() == 0 {
				k := q.Num().BitLen() - 1
				n.scale = ia.scale + k
				if ia.lo != nil {
					x, y := new(big.Rat).Quo(ia.lo, b.Q), new(big.Rat).Quo(ia.hi, b.Q)
					if x.Cmp(y) > 0 {
						x, y = y, x
					}
					n.lo, n.hi = x, y
				}
				n.exact = ia.exact && fits(n.lo, n.hi, n.scale)
				if !n.exact {
					s.run.idealOps++
				}
				s.setInfo(r, n)
				return r
			}
		}
		n.exact = false
		s.run.idealOps++
		if ia.lo != nil && ib.lo != nil && (ib.lo.Sign() > 0 || ib.hi.Sign() < 0) {
			qs := []*big.Rat{new(big.Rat).Quo(ia.lo, ib.lo), new(big.Rat).Quo(ia.lo, ib.hi), new(big.Rat).Quo(ia.hi, ib.lo), new(big.Rat).Quo(ia.hi, ib.hi)}
			n.lo, n.hi = qs[0], qs[0]
			for _, p := range qs[1:] {
				if p.Cmp(n.lo) < 0 {
					n.lo = p
				}
				if p.Cmp(n.hi) > 0 {
					n.hi = p
				}
			}
		}
		s.setInfo(r, n)
		return r
	default:
		panic(abortf("float op %v", op))
	}
	if r.IsConst() {
		return r
	}
	if ia.exact && ib.exact {
		if fits(n.lo, n.hi, n.scale) {
			n.exact = true
		} else if s.eng.cfg.RoundModel && n.scale == 0 && n.lo != nil {
			// exact rounding model RN53 for integer-valued results
			rr := s.rn53(r, n)
			return rr
		} else if s.eng.cfg.DeltaModel {
			return s.enclose(r, n, 53)
		} else {
			n.exact = false
			s.run.idealOps++
			s.run.noteInexact(s.site())
		}
	} else if s.eng.cfg.DeltaModel && (ia.exact || ia.enclosed) && (ib.exact || ib.enclosed) {
		return s.enclose(r, n, 53)
	} else {
		s.run.idealOps++
	}
	s.setInfo(r, n)
	return r
}

// enclose: standard model of rounding, fl(x) = x(1+d), |d| <= 2^-P (valid for results in the normal
// range; operands here are exact or themselves enclosed). The result is a fresh real constrained to
// that interval, so BOTH outcomes of any later comparison that rounding could flip are explored:
// verdicts hold for the IEEE value, not only for the ideal one.
func (s *State) enclose(r *Term, n *FInfo, P int) *Term {
	c := s.ctx
	s.fresh++
	v := c.Var(fmt.Sprintf("fl!%d", s.fresh), SReal)
	u := new(big.Rat).SetFrac(big.NewInt(1), new(big.Int).Lsh(big.NewInt(1), uint(P)))
	one := big.NewRat(1, 1)
	lo := c.RealConst(new(big.Rat).Sub(one, u))
	hi := c.RealConst(new(big.Rat).Add(one, u))
	rr := c.ToReal(r)
	zero := c.RealConst(new(big.Rat))
	pos := c.And(c.Le(c.Mul(rr, lo), v), c.Le(v, c.Mul(rr, hi)))
	neg := c.And(c.Le(c.Mul(rr, hi), v), c.Le(v, c.Mul(rr, lo)))
	s.assumeRaw(c.Ite(c.Le(zero, rr), pos, neg))
	// normal-range side condition: |r| >= 2^-1000 or r == 0
	tiny := c.RealConst(new(big.Rat).SetFrac(big.NewInt(1), new(big.Int).Lsh(big.NewInt(1), 1000)))
	absr := c.Ite(c.Lt(rr, zero), c.Neg(rr), rr)
	s.assumeCut(c.Or(c.Eq(rr, zero), c.Le(tiny, absr)), "delta model: result below the normal range")
	m := &FInfo{exact: false, enclosed: true, scale: -1}
	if n != nil && n.lo != nil {
		w := new(big.Rat).Add(one, u)
		m.lo, m.hi = new(big.Rat).Mul(n.lo, w), new(big.Rat).Mul(n.hi, w)
		if m.lo.Cmp(n.lo) > 0 {
			m.lo = new(big.Rat).Mul(n.lo, new(big.Rat).Sub(one, u))
		}
		if m.hi.Cmp(n.hi) < 0 {
			m.hi = new(big.Rat).Mul(n.hi, new(big.Rat).Sub(one, u))
		}
	}
	s.setInfo(v, m)
	s.run.enclosedOps++
	return v
}

// rn53 returns a fresh Int variable constrained to be round-to-nearest-even (53-bit significand)
// of the integer-valued term r whose magnitude is bounded by info.
func (s *State) rn53(r *Term, info *FInfo) *Term { return s.rnP(r, info, 53) }

// rnP: round-to-nearest-even to a P-bit significand of an integer-valued term (exact model).
func (s *State) rnP(r *Term, info *FInfo, P int) *Term {
	c := s.ctx
	m := new(big.Rat).Abs(info.lo)
	if h := new(big.Rat).Abs(info.hi); h.Cmp(m) > 0 {
		m = h
	}
	// number of binades above 2^53
	mi := new(big.Int).Div(m.Num(), m.Denom())
	top := mi.BitLen() // m < 2^top
	if top <= P {
		return r
	}
	if top-P > 12 {
		panic(abortf("rnP: too many binades (%d)", top-P))
	}
	s.fresh++
	v := c.Var(fmt.Sprintf("rn!%d", s.fresh), SInt)
	ri := r
	if ri.Sort.K != KInt {
		panic(abortf("rn53 on non-Int term"))
	}
	abs := c.Ite(c.Lt(ri, c.IntConst(0)), c.Neg(ri), ri)
	p2 := func(k int) *Term { return c.IntConstBig(new(big.Int).Lsh(big.NewInt(1), uint(k))) }
	// |r| < 2^P -> v = r
	conds := []*Term{c.Implies(c.Lt(abs, p2(P)), c.Eq(v, ri))}
	for k := P; k < top; k++ {
		// 2^k <= |r| < 2^(k+1): ulp u = 2^(k-P+1); v multiple of u, |v - r| <= u/2, ties to even multiple
		u := k - P + 1
		in := c.And(c.Le(p2(k), abs), c.Lt(abs, p2(k+1)))
		s.fresh++
		q := c.Var(fmt.Sprintf("rnq!%d", s.fresh), SInt) // v = q*u
		U := p2(u)
		half := p2(u - 1)
		diff := c.Sub(c.Mul(q, U), ri)
		body := c.And(
			c.Eq(v, c.Mul(q, U)),
			c.Le(c.Neg(half), diff), c.Le(diff, half),
			// tie -> q even
			c.Implies(c.Or(c.Eq(diff, half), c.Eq(diff, c.Neg(half))), c.Eq(c.Mod(q, c.IntConst(2)), c.IntConst(0))),
		)
		conds = append(conds, c.Implies(in, body))
	}
	s.assume(c.And(conds...))
	n := &FInfo{exact: true, scale: 0, lo: info.lo, hi: info.hi}
	s.setInfo(v, n)
	s.run.roundedOps++
	return v
}

// checkNonFinite: ok must hold for the float result to be finite.
func (s *State) checkNonFinite(ok *Term, what string) {
	if ok.IsTrue() {
		return
	}
	if s.eng.cfg.NonFiniteIsViolation {
		s.checkCond(ok, "nonfinite", what)
		return
	}
	// outside the X domain: cut the non-finite side, count it
	if ok.IsFalse() {
		s.run.cut("non-finite float result: " + what)
		panic(pathEnd{"cut: non-finite"})
	}
	s.assumeCut(ok, "non-finite float result: "+what)
}

// mulPaired multiplies a and b; pairs of equal sqrt variables (r*r -> x) and of equal absolute
// values (|x|*|x| -> x*x) are rewritten, which keeps squares of distances free of sqrt/abs.
func (s *State) mulPaired(a, b *Term) *Term {
	c := s.ctx
	if len(s.sqrtOf) == 0 && len(s.absOf) == 0 {
		return c.Mul(a, b)
	}
	var fs []*Term
	var flat func(t *Term)
	flat = func(t *Term) {
		if t.Op == OpMul && len(fs) < 64 {
			for _, x := range t.Args {
				flat(x)
			}
			return
		}
		fs = append(fs, t)
	}
	flat(a)
	flat(b)
	special := false
	for _, f := range fs {
		if s.sqrtOf[f] != nil || s.absOf[f] != nil {
			special = true
		}
	}
	if !special {
		return c.Mul(a, b)
	}
	used := make([]bool, len(fs))
	var out []*Term
	changed := false
	for i, f := range fs {
		if used[i] {
			continue
		}
		if x := s.sqrtOf[f]; x != nil {
			for j := i + 1; j < len(fs); j++ {
				if !used[j] && fs[j] == f {
					used[i], used[j] = true, true
					out = append(out, x)
					changed = true
					break
				}
			}
		} else if x := s.absOf[f]; x != nil {
			for j := i + 1; j < len(fs); j++ {
				if !used[j] && fs[j] == f {
					used[i], used[j] = true, true
					out = append(out, x, x)
					changed = true
					break
				}
			}
		}
		if !used[i] {
			used[i] = true
			out = append(out, f)
		}
	}
	if !changed {
		return c.Mul(a, b)
	}
	r := out[0]
	for _, f := range out[1:] {
		r = c.Mul(r, f)
	}
	return r
}

// sumOfSquares: t is syntactically a sum of squares t1*t1 + t2*t2 + ... (hence >= 0 over the reals).
func sumOfSquares(t *Term, depth int) bool {
	if depth > 16 {
		return false
	}
	switch t.Op {
	case OpAdd:
		for _, a := range t.Args {
			if !sumOfSquares(a, depth+1) {
				return false
			}
		}
		return true
	case OpMul:
		return len(t.Args) == 2 && t.Args[0] == t.Args[1]
	case OpConst:
		return t.Q != nil && t.Q.Sign() >= 0
	}
	return false
}
