package main

// Rational-function normal form for arithmetic terms (Int/Real: + - * / neg over atoms). Used by
// TermCtx.Eq to fold algebraic identities (a == b when num_a*den_b - num_b*den_a is the zero
// polynomial). Atoms are variables and every non-arithmetic term (ite, UF, to_int, ...). Everything
// is exact (big.Rat coefficients); size-capped, bailing out leaves the equality to the solver.

import (
	"math/big"
	"os"
	"sort"
	"strconv"
	"strings"
)

type poly map[string]*big.Rat // monomial key -> coefficient (no zero coefficients)

var polyDebug = os.Getenv("GOSYM_DEBUG_POLY") != ""

const polyMaxTerms = 80000

// frac is num / PRODUCT(divisor^power): denominators are kept factored (keyed by the canonical text of
// the divisor polynomial), so repeated division by the same quantity does not blow the fraction up.
type frac struct {
	num poly
	den map[string]int
	ok  bool
}

func polyConst(q *big.Rat) poly {
	p := poly{}
	if q.Sign() != 0 {
		p[""] = new(big.Rat).Set(q)
	}
	return p
}

func polyAtom(id int) poly {
	return poly{strconv.Itoa(id) + "^1": big.NewRat(1, 1)}
}

func (p poly) isOne() bool {
	if len(p) != 1 {
		return false
	}
	c, ok := p[""]
	return ok && c.Cmp(big.NewRat(1, 1)) == 0
}

func polyAdd(a, b poly, sign int) poly {
	r := make(poly, len(a)+len(b))
	for k, v := range a {
		r[k] = new(big.Rat).Set(v)
	}
	for k, v := range b {
		c, ok := r[k]
		if !ok {
			c = new(big.Rat)
			r[k] = c
		}
		if sign >= 0 {
			c.Add(c, v)
		} else {
			c.Sub(c, v)
		}
		if c.Sign() == 0 {
			delete(r, k)
		}
	}
	return r
}

type varpow struct {
	id, exp int
}

func parseMono(k string) []varpow {
	if k == "" {
		return nil
	}
	parts := strings.Split(k, ".")
	out := make([]varpow, len(parts))
	for i, p := range parts {
		j := strings.IndexByte(p, '^')
		id, _ := strconv.Atoi(p[:j])
		e, _ := strconv.Atoi(p[j+1:])
		out[i] = varpow{id, e}
	}
	return out
}

func monoKey(vs []varpow) string {
	var sb strings.Builder
	for i, v := range vs {
		if i > 0 {
			sb.WriteByte('.')
		}
		sb.WriteString(strconv.Itoa(v.id))
		sb.WriteByte('^')
		sb.WriteString(strconv.Itoa(v.exp))
	}
	return sb.String()
}

func monoMul(a, b string) string {
	if a == "" {
		return b
	}
	if b == "" {
		return a
	}
	x, y := parseMono(a), parseMono(b)
	m := map[int]int{}
	for _, v := range x {
		m[v.id] += v.exp
	}
	for _, v := range y {
		m[v.id] += v.exp
	}
	out := make([]varpow, 0, len(m))
	for id, e := range m {
		out = append(out, varpow{id, e})
	}
	sort.Slice(out, func(i, j int) bool { return out[i].id < out[j].id })
	return monoKey(out)
}

func polyMul(a, b poly) (poly, bool) {
	if len(a)*len(b) > 4000000 {
		return nil, false
	}
	r := poly{}
	for ka, va := range a {
		for kb, vb := range b {
			k := monoMul(ka, kb)
			c, ok := r[k]
			if !ok {
				c = new(big.Rat)
				r[k] = c
			}
			c.Add(c, new(big.Rat).Mul(va, vb))
			if c.Sign() == 0 {
				delete(r, k)
			}
		}
	}
	if len(r) > polyMaxTerms {
		return nil, false
	}
	return r, true
}

func polyKey(p poly) string {
	ks := make([]string, 0, len(p))
	for k, v := range p {
		ks = append(ks, k+":"+v.RatString())
	}
	sort.Strings(ks)
	return strings.Join(ks, "+")
}

func (c *TermCtx) divisorKey(p poly) string {
	k := polyKey(p)
	if c.divPolys == nil {
		c.divPolys = map[string]poly{}
	}
	c.divPolys[k] = p
	return k
}

// scale multiplies p by PRODUCT(divisor^pow) for the given powers.
func (c *TermCtx) scale(p poly, pows map[string]int) (poly, bool) {
	keys := make([]string, 0, len(pows))
	for k := range pows {
		keys = append(keys, k)
	}
	sort.Strings(keys)
	ok := true
	for _, k := range keys {
		for i := 0; i < pows[k]; i++ {
			p, ok = polyMul(p, c.divPolys[k])
			if !ok {
				return nil, false
			}
		}
	}
	return p, true
}

// common brings a and b to the same denominator; returns the two numerators and the denominator.
func (c *TermCtx) common(a, b frac) (poly, poly, map[string]int, bool) {
	den := map[string]int{}
	for k, v := range a.den {
		den[k] = v
	}
	for k, v := range b.den {
		if v > den[k] {
			den[k] = v
		}
	}
	da, db := map[string]int{}, map[string]int{}
	for k, v := range den {
		if d := v - a.den[k]; d > 0 {
			da[k] = d
		}
		if d := v - b.den[k]; d > 0 {
			db[k] = d
		}
	}
	na, ok1 := c.scale(a.num, da)
	nb, ok2 := c.scale(b.num, db)
	return na, nb, den, ok1 && ok2
}

func (c *TermCtx) normFrac(t *Term, depth int) frac {
	if f, ok := c.fracMemo[t]; ok {
		return f
	}
	f := c.normFrac1(t, depth)
	if c.fracMemo == nil {
		c.fracMemo = map[*Term]frac{}
	}
	c.fracMemo[t] = f
	return f
}

func (c *TermCtx) normFrac1(t *Term, depth int) frac {
	if depth > 400 {
		return frac{}
	}
	switch t.Op {
	case OpConst:
		if t.Q == nil {
			return frac{}
		}
		return frac{polyConst(t.Q), nil, true}
	case OpToReal:
		return c.normFrac(t.Args[0], depth+1)
	case OpNeg:
		a := c.normFrac(t.Args[0], depth+1)
		if !a.ok {
			return frac{}
		}
		return frac{polyAdd(poly{}, a.num, -1), a.den, true}
	case OpAdd, OpSub:
		a, b := c.normFrac(t.Args[0], depth+1), c.normFrac(t.Args[1], depth+1)
		if !a.ok || !b.ok {
			return frac{}
		}
		sign := 1
		if t.Op == OpSub {
			sign = -1
		}
		na, nb, den, ok := c.common(a, b)
		if !ok {
			return frac{}
		}
		return frac{polyAdd(na, nb, sign), den, true}
	case OpMul:
		a, b := c.normFrac(t.Args[0], depth+1), c.normFrac(t.Args[1], depth+1)
		if !a.ok || !b.ok {
			return frac{}
		}
		n, ok := polyMul(a.num, b.num)
		if !ok {
			return frac{}
		}
		den := map[string]int{}
		for k, v := range a.den {
			den[k] += v
		}
		for k, v := range b.den {
			den[k] += v
		}
		return frac{n, den, true}
	case OpDiv:
		a, b := c.normFrac(t.Args[0], depth+1), c.normFrac(t.Args[1], depth+1)
		if !a.ok || !b.ok || len(b.num) == 0 {
			return frac{}
		}
		// a / (nb / Db) = a * Db / nb
		n, ok := c.scale(a.num, b.den)
		if !ok {
			return frac{}
		}
		den := map[string]int{}
		for k, v := range a.den {
			den[k] += v
		}
		if !(len(b.num) == 1 && b.num[""] != nil) {
			den[c.divisorKey(b.num)]++
		} else {
			// division by a constant
			inv := new(big.Rat).Inv(b.num[""])
			n, _ = polyMul(n, polyConst(inv))
		}
		return frac{n, den, true}
	}
	if t.Sort.K != KInt && t.Sort.K != KReal {
		return frac{}
	}
	return frac{polyAtom(int(t.id)), nil, true}
}

// algebraicallyEqual: a - b normalises to the zero rational function.
func (c *TermCtx) algebraicallyEqual(a, b *Term) bool {
	fa, fb := c.normFrac(a, 0), c.normFrac(b, 0)
	if polyDebug {
		println("algEq", a.id, b.id, fa.ok, fb.ok, len(fa.num), len(fa.den), len(fb.num), len(fb.den))
	}
	if !fa.ok || !fb.ok {
		return false
	}
	na, nb, _, ok := c.common(fa, fb)
	if !ok {
		return false
	}
	diff := polyAdd(na, nb, -1)
	if polyDebug && len(diff) != 0 && len(diff) < 40 {
		println("  diff", len(diff), polyKey(diff))
	} else if polyDebug {
		println("  difflen", len(diff))
	}
	return len(diff) == 0
}
