package main

// SSA interpreter over symbolic values. One State per path execution.

import (
	"fmt"
	"go/constant"
	"go/token"
	"go/types"
	"math"
	"math/big"
	"strings"
	"sync"
	"unicode/utf8"

	"golang.org/x/tools/go/ssa"
)

// pathEnd is thrown (as a Go panic) to terminate the current path.
type pathEnd struct {
	reason string
}

// abortErr is thrown when the engine cannot continue soundly (run becomes INCONCLUSIVE).
type abortErr struct {
	msg string
}

func abortf(format string, args ...interface{}) abortErr {
	return abortErr{fmt.Sprintf(format, args...)}
}

type funcInfo struct {
	index map[ssa.Value]int
	n     int
	name  string
	isRepo bool
}

type deferred struct {
	fn   Value
	args []Value
	call *ssa.CallCommon
}

type Frame struct {
	fn     *ssa.Function
	info   *funcInfo
	regs   []Value
	defers []deferred
	result Value
	parent *Frame
	cur    ssa.Instruction
}

type State struct {
	eng       *Engine
	ctx       *TermCtx
	run       *PathRun
	nextObj   int
	initPhase bool
	overlay   map[*Object]*Object
	steps     int
	frame     *Frame
	depth     int
	mayPanic  int
	fresh     int
	backedges map[*ssa.BasicBlock]int
	finfo     map[*Term]*FInfo // X-domain side information
	funcs      map[string]bool
	frozenObjs map[*Object]bool
	allocLimit *Term
	nonNaN      map[*Term]bool
	noNaNInputs bool
	keyMemo     map[*Term]*Term
	replacements map[string]*Closure
	arrayAlias   map[*ArrayV]*Object
	ufVars       map[string]*Term
	sqrtOf       map[*Term]*Term
	sqrtMemo     map[*Term]*Term
	absOf        map[*Term]*Term
}

var finfoMu sync.Mutex

func (e *Engine) funcInfo(fn *ssa.Function) *funcInfo {
	finfoMu.Lock()
	defer finfoMu.Unlock()
	if fi, ok := e.finfos[fn]; ok {
		return fi
	}
	fi := &funcInfo{index: map[ssa.Value]int{}, name: fn.String()}
	add := func(v ssa.Value) {
		fi.index[v] = fi.n
		fi.n++
	}
	for _, p := range fn.Params {
		add(p)
	}
	for _, fv := range fn.FreeVars {
		add(fv)
	}
	for _, b := range fn.Blocks {
		for _, in := range b.Instrs {
			if v, ok := in.(ssa.Value); ok {
				add(v)
			}
		}
	}
	if fn.Pkg != nil && fn.Pkg.Pkg != nil {
		fi.isRepo = e.isRepoPkg(fn.Pkg.Pkg.Path())
	} else if fn.Origin() != nil && fn.Origin().Pkg != nil {
		fi.isRepo = e.isRepoPkg(fn.Origin().Pkg.Pkg.Path())
	}
	e.finfos[fn] = fi
	return fi
}

func (s *State) pos(in ssa.Instruction) string {
	if in == nil {
		return "?"
	}
	p := s.eng.prog.Fset.Position(in.Pos())
	fn := in.Parent()
	// walk up for a valid position
	if !p.IsValid() && fn != nil {
		p = s.eng.prog.Fset.Position(fn.Pos())
	}
	file := p.Filename
	if i := strings.LastIndex(file, "/"); i >= 0 {
		file = file[i+1:]
	}
	name := "?"
	if fn != nil {
		name = fn.String()
	}
	return fmt.Sprintf("%s@%s:%d", name, file, p.Line)
}

func (s *State) stack() string {
	var out []string
	for f := s.frame; f != nil && len(out) < 8; f = f.parent {
		out = append(out, s.pos(f.cur))
	}
	return strings.Join(out, " <- ")
}

func (s *State) site() string {
	if s.frame == nil {
		return "?"
	}
	return s.pos(s.frame.cur)
}

// repoSite returns the innermost frame that is repo (non-harness, non-std) code.
func (s *State) repoSite() string {
	for f := s.frame; f != nil; f = f.parent {
		if f.info.isRepo && !s.eng.isHarnessFn(f.fn) {
			return f.fn.String()
		}
	}
	return ""
}

func (s *State) get(f *Frame, v ssa.Value) Value {
	switch x := v.(type) {
	case *ssa.Const:
		return s.constVal(x)
	case *ssa.Global:
		return s.globalPtr(x)
	case *ssa.Function:
		return &Closure{fn: x}
	case *ssa.Builtin:
		return &Closure{builtin: x}
	}
	i, ok := f.info.index[v]
	if !ok {
		panic(abortf("unknown ssa value %v in %s", v, f.fn))
	}
	return f.regs[i]
}

func (s *State) globalPtr(g *ssa.Global) Value {
	o, ok := s.eng.globals[g]
	if !ok {
		panic(abortf("access to global of non-initialised package: %s", g.String()))
	}
	return Ptr{obj: o}
}

func (s *State) constVal(c *ssa.Const) Value {
	t := c.Type()
	if c.Value == nil {
		return s.zero(t)
	}
	switch u := t.Underlying().(type) {
	case *types.Basic:
		info := u.Info()
		switch {
		case info&types.IsBoolean != 0:
			return s.ctx.Bool(constant.BoolVal(c.Value))
		case info&types.IsString != 0:
			return concStr(constant.StringVal(c.Value))
		case info&types.IsFloat != 0:
			f, _ := constant.Float64Val(c.Value)
			if u.Kind() == types.Float32 {
				f = float64(float32(f))
			}
			return s.fconstFloat(f)
		case info&types.IsInteger != 0:
			w := intWidth(u)
			if i, ok := constant.Int64Val(constant.ToInt(c.Value)); ok {
				return s.ctx.BVConst(uint64(i), w)
			}
			if ui, ok := constant.Uint64Val(constant.ToInt(c.Value)); ok {
				return s.ctx.BVConst(ui, w)
			}
		}
	}
	panic(abortf("unsupported constant %v of type %v", c, t))
}

// ---------- calls ----------

const maxDepth = 400

func (s *State) callFunction(fn *ssa.Function, args []Value, bindings []Value) Value {
	name := fn.String()
	if h, ok := intrinsics[name]; ok {
		return h(s, fn, args)
	}
	if fn.Origin() != nil {
		if h, ok := intrinsics[fn.Origin().String()]; ok {
			return h(s, fn, args)
		}
	}
	if s.replacements != nil {
		if cl, ok := s.replacements[name]; ok {
			return s.callFunction(cl.fn, args, cl.bindings)
		}
	}
	if fn.Synthetic == "package initializer" {
		if fn.Pkg == nil || !s.eng.initOK[fn.Pkg.Pkg.Path()] {
			return nil
		}
	}
	if fn.Blocks == nil {
		panic(abortf("call to function without body: %s", name))
	}
	if s.depth > maxDepth {
		panic(abortf("call depth exceeded in %s", name))
	}
	fi := s.eng.funcInfo(fn)
	s.eng.noteFunc(s, fi)
	fr := &Frame{fn: fn, info: fi, regs: make([]Value, fi.n), parent: s.frame}
	if len(args) != len(fn.Params) {
		panic(abortf("arity mismatch calling %s: %d vs %d", name, len(args), len(fn.Params)))
	}
	for i, a := range args {
		fr.regs[i] = a
	}
	for i, b := range bindings {
		fr.regs[len(fn.Params)+i] = b
	}
	s.frame = fr
	s.depth++
	s.runFrame(fr)
	s.depth--
	s.frame = fr.parent
	return fr.result
}

func (s *State) callValue(fv Value, args []Value, site ssa.Instruction) Value {
	cl, ok := fv.(*Closure)
	if !ok || cl == nil {
		s.panicReached("nil function call", "")
		return nil
	}
	if cl.builtin != nil {
		return s.callBuiltin(cl.builtin, args, nil)
	}
	return s.callFunction(cl.fn, args, cl.bindings)
}

func (s *State) doCall(f *Frame, cc *ssa.CallCommon, in ssa.Instruction) Value {
	if cc.IsInvoke() {
		recv := s.get(f, cc.Value)
		iv, ok := recv.(Iface)
		if !ok {
			panic(abortf("invoke on non-interface %T", recv))
		}
		if iv.typ == nil {
			s.panicReached("nil interface method call", cc.Method.Name())
			return nil
		}
		args := make([]Value, 0, len(cc.Args)+1)
		args = append(args, iv.val)
		for _, a := range cc.Args {
			args = append(args, s.get(f, a))
		}
		if oe, ok := iv.val.(*OpaqueErr); ok {
			return s.opaqueErrMethod(oe, cc.Method.Name())
		}
		fn := s.eng.lookupMethod(iv.typ, cc.Method)
		if fn == nil {
			panic(abortf("method %s not found on %v", cc.Method.Name(), iv.typ))
		}
		return s.callFunction(fn, args, nil)
	}
	args := make([]Value, len(cc.Args))
	for i, a := range cc.Args {
		args[i] = s.get(f, a)
	}
	switch callee := cc.Value.(type) {
	case *ssa.Function:
		return s.callFunction(callee, args, nil)
	case *ssa.Builtin:
		return s.callBuiltin(callee, args, cc)
	case *ssa.MakeClosure:
		cl := s.get(f, callee).(*Closure)
		return s.callFunction(cl.fn, args, cl.bindings)
	default:
		return s.callValue(s.get(f, cc.Value), args, in)
	}
}

func (e *Engine) lookupMethod(t types.Type, m *types.Func) *ssa.Function {
	e.methMu.Lock()
	defer e.methMu.Unlock()
	ms := e.prog.MethodSets.MethodSet(t)
	sel := ms.Lookup(m.Pkg(), m.Name())
	if sel == nil {
		return nil
	}
	return e.prog.MethodValue(sel)
}

// ---------- frame execution ----------

func (s *State) runFrame(f *Frame) {
	block := f.fn.Blocks[0]
	var prev *ssa.BasicBlock
	for {
		next := s.runBlock(f, block, prev)
		if next == nil {
			return
		}
		// back-edge accounting
		if next.Index <= block.Index {
			s.backedges[next]++
			if s.backedges[next] > s.eng.cfg.MaxBackEdge {
				panic(abortf("unwind: back-edge budget exceeded at %s (block %d)", f.fn, next.Index))
			}
		}
		prev = block
		block = next
	}
}

func (s *State) runBlock(f *Frame, b *ssa.BasicBlock, prev *ssa.BasicBlock) *ssa.BasicBlock {
	// phis first (parallel assignment)
	nphi := 0
	for _, in := range b.Instrs {
		if _, ok := in.(*ssa.Phi); ok {
			nphi++
		} else {
			break
		}
	}
	if nphi > 0 {
		pi := -1
		for i, p := range b.Preds {
			if p == prev {
				pi = i
				break
			}
		}
		if pi < 0 {
			panic(abortf("phi: predecessor not found in %s", f.fn))
		}
		vals := make([]Value, nphi)
		for i := 0; i < nphi; i++ {
			vals[i] = s.get(f, b.Instrs[i].(*ssa.Phi).Edges[pi])
		}
		for i := 0; i < nphi; i++ {
			f.regs[f.info.index[b.Instrs[i].(*ssa.Phi)]] = vals[i]
		}
	}
	for _, in := range b.Instrs[nphi:] {
		s.steps++
		if s.steps > s.eng.cfg.MaxSteps {
			panic(abortf("unwind: instruction budget exceeded (%d) in %s", s.steps, f.fn))
		}
		f.cur = in
		switch x := in.(type) {
		case *ssa.If:
			c := s.get(f, x.Cond).(*Term)
			if s.branch(c) {
				return b.Succs[0]
			}
			return b.Succs[1]
		case *ssa.Jump:
			return b.Succs[0]
		case *ssa.Return:
			switch len(x.Results) {
			case 0:
				f.result = nil
			case 1:
				f.result = s.get(f, x.Results[0])
			default:
				tv := make(TupleV, len(x.Results))
				for i, r := range x.Results {
					tv[i] = s.get(f, r)
				}
				f.result = tv
			}
			return nil
		case *ssa.Panic:
			v := s.get(f, x.X)
			s.panicReached("explicit panic", describeVal(v))
			return nil
		case *ssa.RunDefers:
			s.runDefers(f)
		case *ssa.Defer:
			d := deferred{call: &x.Call}
			if x.Call.IsInvoke() {
				panic(abortf("defer of interface method not supported"))
			}
			d.fn = s.get(f, x.Call.Value)
			for _, a := range x.Call.Args {
				d.args = append(d.args, s.get(f, a))
			}
			f.defers = append(f.defers, d)
		case *ssa.Go:
			panic(abortf("goroutines not supported (%s)", s.pos(in)))
		case *ssa.Send, *ssa.Select:
			panic(abortf("channels not supported (%s)", s.pos(in)))
		case *ssa.Store:
			p := s.get(f, x.Addr).(Ptr)
			s.store(p, s.get(f, x.Val), false)
		case *ssa.MapUpdate:
			s.mapUpdate(s.get(f, x.Map), s.get(f, x.Key), s.get(f, x.Value))
		case *ssa.DebugRef:
		case ssa.Value:
			f.regs[f.info.index[x]] = s.eval(f, x)
		default:
			panic(abortf("unsupported instruction %T", in))
		}
	}
	panic(abortf("block without terminator in %s", f.fn))
}

func (s *State) runDefers(f *Frame) {
	for len(f.defers) > 0 {
		d := f.defers[len(f.defers)-1]
		f.defers = f.defers[:len(f.defers)-1]
		s.callValue(d.fn, d.args, nil)
	}
}

func describeVal(v Value) string {
	switch x := v.(type) {
	case Iface:
		if x.typ == nil {
			return "nil"
		}
		return x.typ.String() + ":" + describeVal(x.val)
	case *StrV:
		if x.isConc {
			return x.conc
		}
		return "<sym string>"
	case *Term:
		if x.IsConst() {
			return constStr(x)
		}
		return "<sym>"
	case *OpaqueErr:
		return "opaque error " + x.note
	}
	return fmt.Sprintf("%T", v)
}

// ---------- value instructions ----------

func (s *State) eval(f *Frame, v ssa.Value) Value {
	switch x := v.(type) {
	case *ssa.Alloc:
		o := s.newObject(s.zero(x.Type().(*types.Pointer).Elem()), "")
		return Ptr{obj: o}
	case *ssa.BinOp:
		return s.binop(x.Op, s.get(f, x.X), s.get(f, x.Y), x.X.Type(), x.Y.Type())
	case *ssa.UnOp:
		return s.unop(f, x)
	case *ssa.Call:
		return s.doCall(f, &x.Call, x)
	case *ssa.ChangeInterface:
		return s.get(f, x.X)
	case *ssa.ChangeType:
		return s.get(f, x.X)
	case *ssa.Convert:
		return s.convert(s.get(f, x.X), x.X.Type(), x.Type())
	case *ssa.Extract:
		return s.get(f, x.Tuple).(TupleV)[x.Index]
	case *ssa.Field:
		return copyVal(s.get(f, x.X).(*StructV).f[x.Field])
	case *ssa.FieldAddr:
		p := s.get(f, x.X).(Ptr)
		if p.IsNil() {
			s.panicReached("nil pointer dereference", "")
		}
		return Ptr{obj: p.obj, path: appendPath(p.path, PathElem{idx: x.Field})}
	case *ssa.Index:
		return s.indexValue(s.get(f, x.X), s.get(f, x.Index).(*Term), x.Index.Type())
	case *ssa.IndexAddr:
		return s.indexAddr(s.get(f, x.X), s.get(f, x.Index).(*Term), x.Index.Type())
	case *ssa.Lookup:
		return s.lookup(f, x)
	case *ssa.MakeClosure:
		cl := &Closure{fn: x.Fn.(*ssa.Function)}
		for _, b := range x.Bindings {
			cl.bindings = append(cl.bindings, s.get(f, b))
		}
		return cl
	case *ssa.MakeInterface:
		return Iface{typ: x.X.Type(), val: s.get(f, x.X)}
	case *ssa.MakeMap:
		s.nextObj++
		return &MapV{index: map[string]int{}, global: s.initPhase, id: s.nextObj}
	case *ssa.MakeSlice:
		lenT := s.toInt64(s.get(f, x.Len).(*Term), x.Len.Type())
		capT := s.toInt64(s.get(f, x.Cap).(*Term), x.Cap.Type())
		s.eng.noteAlloc(s, f, capT)
		n := s.concretizeLen(lenT, "makeslice len")
		c := s.concretizeLen(capT, "makeslice cap")
		return s.makeSlice(x.Type().Underlying().(*types.Slice).Elem(), n, c)
	case *ssa.Next:
		return s.next(s.get(f, x.Iter).(*IterV), x)
	case *ssa.Phi:
		panic("phi outside block head")
	case *ssa.Range:
		return s.rangeIter(s.get(f, x.X))
	case *ssa.Slice:
		return s.sliceOp(f, x)
	case *ssa.SliceToArrayPointer:
		sv := s.get(f, x.X).(SliceV)
		n := int(x.Type().(*types.Pointer).Elem().Underlying().(*types.Array).Len())
		if sv.n < n {
			s.panicReached("slice to array pointer: length too short", "")
		}
		if sv.obj == nil {
			return Ptr{}
		}
		if sv.off == 0 && len(s.resolve(sv.obj).val.(*ArrayV).e) == n {
			return Ptr{obj: sv.obj}
		}
		panic(abortf("SliceToArrayPointer on sub-slice not supported"))
	case *ssa.TypeAssert:
		return s.typeAssert(x, s.get(f, x.X))
	case *ssa.MultiConvert:
		panic(abortf("MultiConvert not supported"))
	}
	panic(abortf("unsupported value instruction %T (%s)", v, s.pos(v.(ssa.Instruction))))
}

func appendPath(p []PathElem, e PathElem) []PathElem {
	n := make([]PathElem, len(p)+1)
	copy(n, p)
	n[len(p)] = e
	return n
}

func (s *State) makeSlice(elem types.Type, n, c int) SliceV {
	if c < n {
		c = n
	}
	av := &ArrayV{e: make([]Value, c)}
	z := s.zero(elem)
	_, scalar := z.(*Term)
	for i := range av.e {
		if scalar || i == 0 {
			av.e[i] = z
		} else {
			av.e[i] = s.zero(elem)
		}
	}
	o := s.newObject(av, "")
	return SliceV{obj: o, off: 0, n: n, cap: c}
}

// concretizeLen turns a length term into a concrete non-negative int (panic check for negatives).
func (s *State) concretizeLen(t *Term, what string) int {
	if !t.IsConst() {
		s.checkPanic(s.ctx.BVSle(s.ctx.BVConst(0, 64), t), what+" out of range")
		// allocations larger than the engine bound are outside the explored space: cut and count
		s.assumeCut(s.ctx.BVSle(t, s.ctx.BVConst(uint64(s.eng.cfg.MaxLen), 64)), what+" larger than engine bound")
	}
	v := s.concretize(t)
	if v < 0 {
		s.panicReached(what+" out of range", fmt.Sprint(v))
	}
	if v > int64(s.eng.cfg.MaxLen) {
		s.run.cut(what + " larger than engine bound")
		panic(pathEnd{"cut: allocation larger than engine bound"})
	}
	return int(v)
}

func (s *State) unop(f *Frame, x *ssa.UnOp) Value {
	v := s.get(f, x.X)
	switch x.Op {
	case token.MUL: // load
		p := v.(Ptr)
		return s.load(p)
	case token.NOT:
		return s.ctx.Not(v.(*Term))
	case token.SUB:
		if isFloat(x.Type()) {
			return s.fneg(v.(*Term))
		}
		return s.ctx.BVNeg(v.(*Term))
	case token.XOR:
		return s.ctx.BVNot(v.(*Term))
	case token.ARROW:
		panic(abortf("channel receive not supported"))
	}
	panic(abortf("unsupported unop %v", x.Op))
}

// navigate returns the container and final element index for a pointer path
// (all path elements concrete).
func (s *State) cell(o *Object, path []PathElem) (get func() Value, set func(Value)) {
	if len(path) == 0 {
		return func() Value { return o.val }, func(v Value) { o.val = v }
	}
	cur := o.val
	for i := 0; i < len(path)-1; i++ {
		cur = childOf(cur, path[i].idx)
	}
	last := path[len(path)-1].idx
	switch c := cur.(type) {
	case *StructV:
		return func() Value { return c.f[last] }, func(v Value) { c.f[last] = v }
	case *ArrayV:
		if last < 0 || last >= len(c.e) {
			panic(abortf("internal: array path index %d out of range %d", last, len(c.e)))
		}
		return func() Value { return c.e[last] }, func(v Value) { c.e[last] = v }
	}
	panic(abortf("internal: bad pointer path into %T", cur))
}

func childOf(v Value, i int) Value {
	switch c := v.(type) {
	case *StructV:
		return c.f[i]
	case *ArrayV:
		if i < 0 || i >= len(c.e) {
			panic(abortf("internal: array path index %d out of range %d", i, len(c.e)))
		}
		return c.e[i]
	}
	panic(abortf("internal: bad pointer path into %T", v))
}

func (s *State) symIndexPos(path []PathElem) int {
	for i, e := range path {
		if e.sym != nil {
			return i
		}
	}
	return -1
}

func (s *State) load(p Ptr) Value {
	if p.IsNil() {
		s.panicReached("nil pointer dereference", "")
	}
	o := s.resolve(p.obj)
	k := s.symIndexPos(p.path)
	if k < 0 {
		get, _ := s.cell(o, p.path)
		return copyVal(get())
	}
	// symbolic index: build an ite chain if the loaded values are scalars
	e := p.path[k]
	var vals []Value
	allTerms := true
	for i := e.lo; i < e.hi; i++ {
		np := make([]PathElem, len(p.path))
		copy(np, p.path)
		np[k] = PathElem{idx: i}
		v := s.load(Ptr{obj: p.obj, path: np})
		if _, ok := v.(*Term); !ok {
			allTerms = false
			break
		}
		vals = append(vals, v)
	}
	if allTerms && len(vals) > 0 {
		res := vals[len(vals)-1].(*Term)
		for i := len(vals) - 2; i >= 0; i-- {
			res = s.ctx.Ite(s.ctx.Eq(e.sym, s.ctx.BVConst(uint64(e.lo+i), 64)), vals[i].(*Term), res)
		}
		return res
	}
	return s.load(s.concretizePtr(p))
}

func (s *State) concretizePtr(p Ptr) Ptr {
	np := make([]PathElem, len(p.path))
	copy(np, p.path)
	for i, e := range np {
		if e.sym != nil {
			v := s.concretize(e.sym)
			np[i] = PathElem{idx: int(v)}
		}
	}
	return Ptr{obj: p.obj, path: np}
}

func (s *State) store(p Ptr, v Value, internal bool) {
	if p.IsNil() {
		s.panicReached("nil pointer dereference", "")
	}
	if s.symIndexPos(p.path) >= 0 {
		p = s.concretizePtr(p)
	}
	s.eng.noteWrite(s, p.obj)
	o := s.writable(p.obj)
	_, set := s.cell(o, p.path)
	set(copyVal(v))
}

func (s *State) indexAddr(x Value, idx *Term, idxT types.Type) Value {
	idx = s.toInt64(idx, idxT)
	switch b := x.(type) {
	case SliceV:
		s.boundsCheck(idx, b.n)
		if idx.IsConst() {
			return Ptr{obj: b.obj, path: []PathElem{{idx: b.off + int(idx.U)}}}
		}
		return Ptr{obj: b.obj, path: []PathElem{{sym: s.ctx.BVAdd(idx, s.ctx.BVConst(uint64(b.off), 64)), lo: b.off, hi: b.off + b.n}}}
	case Ptr: // pointer to array
		if b.IsNil() {
			s.panicReached("nil pointer dereference", "")
		}
		get, _ := s.cell(s.resolve(b.obj), b.path)
		n := len(get().(*ArrayV).e)
		s.boundsCheck(idx, n)
		if idx.IsConst() {
			return Ptr{obj: b.obj, path: appendPath(b.path, PathElem{idx: int(idx.U)})}
		}
		return Ptr{obj: b.obj, path: appendPath(b.path, PathElem{sym: idx, lo: 0, hi: n})}
	}
	panic(abortf("IndexAddr on %T", x))
}

func (s *State) indexValue(x Value, idx *Term, idxT types.Type) Value {
	idx = s.toInt64(idx, idxT)
	switch b := x.(type) {
	case *ArrayV:
		s.boundsCheck(idx, len(b.e))
		if idx.IsConst() {
			return copyVal(b.e[idx.U])
		}
		// ite chain for scalars
		res, ok := b.e[len(b.e)-1].(*Term)
		if ok {
			for i := len(b.e) - 2; i >= 0; i-- {
				t, ok2 := b.e[i].(*Term)
				if !ok2 {
					ok = false
					break
				}
				res = s.ctx.Ite(s.ctx.Eq(idx, s.ctx.BVConst(uint64(i), 64)), t, res)
			}
		}
		if ok {
			return res
		}
		return copyVal(b.e[s.concretize(idx)])
	case *StrV:
		return s.strIndex(b, idx)
	}
	panic(abortf("Index on %T", x))
}

func (s *State) strIndex(b *StrV, idx *Term) Value {
	s.boundsCheck(idx, b.Len())
	if idx.IsConst() {
		return b.Byte(s.ctx, int(idx.U))
	}
	n := b.Len()
	res := b.Byte(s.ctx, n-1)
	for i := n - 2; i >= 0; i-- {
		res = s.ctx.Ite(s.ctx.Eq(idx, s.ctx.BVConst(uint64(i), 64)), b.Byte(s.ctx, i), res)
	}
	return res
}

// toInt64 widens an index of any integer type to a 64-bit signed value.
func (s *State) toInt64(t *Term, typ types.Type) *Term {
	if t.Sort.W == 64 {
		return t
	}
	if isUnsigned(typ) {
		return s.ctx.ZeroExt(t, 64)
	}
	return s.ctx.SignExt(t, 64)
}

func (s *State) boundsCheck(idx *Term, n int) {
	if idx.IsConst() {
		if v := int64(idx.U); v < 0 || v >= int64(n) {
			s.panicReached("index out of range", fmt.Sprintf("[%d] with length %d", v, n))
		}
		return
	}
	ok := s.ctx.BVUlt(idx, s.ctx.BVConst(uint64(n), 64))
	s.checkPanic(ok, "index out of range")
}

func (s *State) lookup(f *Frame, x *ssa.Lookup) Value {
	c := s.get(f, x.X)
	switch m := c.(type) {
	case *StrV:
		return s.strIndex(m, s.toInt64(s.get(f, x.Index).(*Term), x.Index.Type()))
	case *MapV:
		mt := x.X.Type().Underlying().(*types.Map)
		v, ok := s.mapLookup(m, s.get(f, x.Index))
		if v == nil {
			v = s.zero(mt.Elem())
		}
		if x.CommaOk {
			return TupleV{copyVal(v), s.ctx.Bool(ok)}
		}
		return copyVal(v)
	}
	panic(abortf("Lookup on %T", c))
}

func (s *State) sliceOp(f *Frame, x *ssa.Slice) Value {
	base := s.get(f, x.X)
	var lo, hi, max *Term
	if x.Low != nil {
		lo = s.toInt64(s.get(f, x.Low).(*Term), x.Low.Type())
	}
	if x.High != nil {
		hi = s.toInt64(s.get(f, x.High).(*Term), x.High.Type())
	}
	if x.Max != nil {
		max = s.toInt64(s.get(f, x.Max).(*Term), x.Max.Type())
	}
	c64 := func(v int) *Term { return s.ctx.BVConst(uint64(v), 64) }
	switch b := base.(type) {
	case *StrV:
		n := b.Len()
		if lo == nil {
			lo = c64(0)
		}
		if hi == nil {
			hi = c64(n)
		}
		l, h := s.sliceBounds(lo, hi, nil, n, n)
		if b.isConc {
			return concStr(b.conc[l:h])
		}
		return strFromBytes(b.b[l:h])
	case SliceV:
		if lo == nil {
			lo = c64(0)
		}
		if hi == nil {
			hi = c64(b.n)
		}
		l, h := s.sliceBounds(lo, hi, max, b.n, b.cap)
		ncap := b.cap - l
		if max != nil {
			ncap = int(s.concretize(max)) - l
		}
		if b.obj == nil {
			return SliceV{}
		}
		return SliceV{obj: b.obj, off: b.off + l, n: h - l, cap: ncap}
	case Ptr: // *array
		if b.IsNil() {
			s.panicReached("nil pointer dereference", "")
		}
		if len(b.path) != 0 {
			// array embedded in a struct/array: give the embedded *ArrayV its own heap object that
			// aliases it (element writes through the slice and through the field path hit the same cells)
			if s.symIndexPos(b.path) >= 0 {
				b = s.concretizePtr(b)
			}
			get, _ := s.cell(s.writable(b.obj), b.path)
			av, ok := get().(*ArrayV)
			if !ok {
				panic(abortf("slicing a non-array field (%s)", s.pos(x)))
			}
			if s.arrayAlias == nil {
				s.arrayAlias = map[*ArrayV]*Object{}
			}
			o, ok := s.arrayAlias[av]
			if !ok {
				o = s.newObject(av, "embedded array")
				s.arrayAlias[av] = o
			}
			b = Ptr{obj: o}
		}
		n := len(s.resolve(b.obj).val.(*ArrayV).e)
		if lo == nil {
			lo = c64(0)
		}
		if hi == nil {
			hi = c64(n)
		}
		l, h := s.sliceBounds(lo, hi, max, n, n)
		ncap := n - l
		if max != nil {
			ncap = int(s.concretize(max)) - l
		}
		return SliceV{obj: b.obj, off: l, n: h - l, cap: ncap}
	}
	panic(abortf("Slice on %T", base))
}

func (s *State) sliceBounds(lo, hi, max *Term, n, cp int) (int, int) {
	c64 := func(v int) *Term { return s.ctx.BVConst(uint64(v), 64) }
	top := c64(cp)
	conds := []*Term{s.ctx.BVSle(c64(0), lo), s.ctx.BVSle(lo, hi)}
	if max != nil {
		conds = append(conds, s.ctx.BVSle(hi, max), s.ctx.BVSle(max, top))
	} else {
		conds = append(conds, s.ctx.BVSle(hi, top))
	}
	ok := s.ctx.And(conds...)
	if ok.IsFalse() {
		s.panicReached("slice bounds out of range", fmt.Sprintf("[%s:%s] cap %d", constOrSym(lo), constOrSym(hi), cp))
	}
	s.checkPanic(ok, "slice bounds out of range")
	l := int(s.concretize(lo))
	h := int(s.concretize(hi))
	if max != nil {
		s.concretize(max)
	}
	return l, h
}

func constOrSym(t *Term) string {
	if t.IsConst() {
		return fmt.Sprint(int64(t.U))
	}
	return "sym"
}

func (s *State) typeAssert(x *ssa.TypeAssert, v Value) Value {
	iv := v.(Iface)
	ok := false
	var res Value
	if iv.typ != nil {
		if types.IsInterface(x.AssertedType) {
			if oe, isOE := iv.val.(*OpaqueErr); isOE {
				_ = oe
				ok = opaqueImplements(x.AssertedType)
			} else {
				ok = types.Implements(iv.typ, x.AssertedType.Underlying().(*types.Interface))
			}
			res = iv
		} else {
			if _, isOE := iv.val.(*OpaqueErr); !isOE {
				ok = types.Identical(iv.typ, x.AssertedType)
			}
			res = iv.val
		}
	}
	if x.CommaOk {
		if !ok {
			res = s.zero(x.AssertedType)
		}
		return TupleV{res, s.ctx.Bool(ok)}
	}
	if !ok {
		s.panicReached("interface conversion (failed type assertion)", x.AssertedType.String())
	}
	return res
}

func opaqueImplements(t types.Type) bool {
	it := t.Underlying().(*types.Interface)
	for i := 0; i < it.NumMethods(); i++ {
		n := it.Method(i).Name()
		if n != "Error" && n != "Unwrap" {
			return false
		}
	}
	return true
}

// ---------- binary operators ----------

func (s *State) binop(op token.Token, x, y Value, xt, yt types.Type) Value {
	c := s.ctx
	switch a := x.(type) {
	case *Term:
		b := y.(*Term)
		if isFloat(xt) {
			return s.fbinop(op, a, b)
		}
		if a.Sort.K == KBool {
			switch op {
			case token.EQL:
				return c.Eq(a, b)
			case token.NEQ:
				return c.Not(c.Eq(a, b))
			case token.AND, token.LAND:
				return c.And(a, b)
			case token.OR, token.LOR:
				return c.Or(a, b)
			}
			panic(abortf("bool binop %v", op))
		}
		uns := isUnsigned(xt)
		switch op {
		case token.ADD:
			return c.BVAdd(a, b)
		case token.SUB:
			return c.BVSub(a, b)
		case token.MUL:
			return c.BVMul(a, b)
		case token.QUO, token.REM:
			nz := c.Not(c.Eq(b, c.BVConst(0, b.Sort.W)))
			if nz.IsFalse() {
				s.panicReached("integer divide by zero", "")
			}
			s.checkPanic(nz, "integer divide by zero")
			if op == token.QUO {
				if uns {
					return c.BVUDiv(a, b)
				}
				return c.BVSDiv(a, b)
			}
			if uns {
				return c.BVURem(a, b)
			}
			return c.BVSRem(a, b)
		case token.AND:
			return c.BVAnd(a, b)
		case token.OR:
			return c.BVOr(a, b)
		case token.XOR:
			return c.BVXor(a, b)
		case token.AND_NOT:
			return c.BVAnd(a, c.BVNot(b))
		case token.SHL, token.SHR:
			return s.shift(op, a, b, uns, isUnsigned(yt))
		case token.EQL:
			return c.Eq(a, b)
		case token.NEQ:
			return c.Not(c.Eq(a, b))
		case token.LSS:
			if uns {
				return c.BVUlt(a, b)
			}
			return c.BVSlt(a, b)
		case token.LEQ:
			if uns {
				return c.BVUle(a, b)
			}
			return c.BVSle(a, b)
		case token.GTR:
			if uns {
				return c.BVUlt(b, a)
			}
			return c.BVSlt(b, a)
		case token.GEQ:
			if uns {
				return c.BVUle(b, a)
			}
			return c.BVSle(b, a)
		}
		panic(abortf("int binop %v", op))
	case *StrV:
		b := y.(*StrV)
		switch op {
		case token.ADD:
			if a.isConc && b.isConc {
				return concStr(a.conc + b.conc)
			}
			return strFromBytes(append(append([]*Term{}, a.Bytes(c)...), b.Bytes(c)...))
		case token.EQL:
			return s.strEq(a, b)
		case token.NEQ:
			return c.Not(s.strEq(a, b))
		case token.LSS, token.LEQ, token.GTR, token.GEQ:
			if a.isConc && b.isConc {
				switch op {
				case token.LSS:
					return c.Bool(a.conc < b.conc)
				case token.LEQ:
					return c.Bool(a.conc <= b.conc)
				case token.GTR:
					return c.Bool(a.conc > b.conc)
				default:
					return c.Bool(a.conc >= b.conc)
				}
			}
			panic(abortf("symbolic string ordering not supported"))
		}
	}
	// reference comparisons
	switch op {
	case token.EQL:
		return c.Bool(s.refEqual(x, y))
	case token.NEQ:
		return c.Bool(!s.refEqual(x, y))
	}
	panic(abortf("binop %v on %T", op, x))
}

func (s *State) strEq(a, b *StrV) *Term {
	if a.Len() != b.Len() {
		return s.ctx.False()
	}
	if a.isConc && b.isConc {
		return s.ctx.Bool(a.conc == b.conc)
	}
	conds := make([]*Term, a.Len())
	for i := range conds {
		conds[i] = s.ctx.Eq(a.Byte(s.ctx, i), b.Byte(s.ctx, i))
	}
	return s.ctx.And(conds...)
}

func (s *State) refEqual(x, y Value) bool {
	switch a := x.(type) {
	case nil:
		return isNilVal(y)
	case Ptr:
		b, ok := y.(Ptr)
		if !ok {
			return a.IsNil() && isNilVal(y)
		}
		if a.obj != b.obj || len(a.path) != len(b.path) {
			return false
		}
		for i := range a.path {
			if a.path[i].sym != nil || b.path[i].sym != nil {
				panic(abortf("comparison of symbolic-index pointers"))
			}
			if a.path[i].idx != b.path[i].idx {
				return false
			}
		}
		return true
	case Iface:
		b, ok := y.(Iface)
		if !ok {
			return a.typ == nil && isNilVal(y)
		}
		if a.typ == nil || b.typ == nil {
			return a.typ == nil && b.typ == nil
		}
		if _, ok := a.val.(*OpaqueErr); ok {
			bo, ok2 := b.val.(*OpaqueErr)
			return ok2 && bo == a.val.(*OpaqueErr)
		}
		if _, ok := b.val.(*OpaqueErr); ok {
			return false
		}
		if !types.Identical(a.typ, b.typ) {
			return false
		}
		return s.valEqualConcrete(a.val, b.val)
	case SliceV:
		return a.obj == nil && isNilVal(y)
	case *MapV:
		if b, ok := y.(*MapV); ok {
			return a == b
		}
		return a == nil && isNilVal(y)
	case *Closure:
		return a == nil && isNilVal(y)
	}
	panic(abortf("refEqual on %T", x))
}

// valEqualConcrete compares dynamic values of identical type inside interfaces.
func (s *State) valEqualConcrete(a, b Value) bool {
	switch x := a.(type) {
	case *Term:
		eq := s.ctx.Eq(x, b.(*Term))
		if eq.IsConst() {
			return eq.IsTrue()
		}
		return s.branch(eq)
	case *StrV:
		eq := s.strEq(x, b.(*StrV))
		if eq.IsConst() {
			return eq.IsTrue()
		}
		return s.branch(eq)
	case Ptr:
		return s.refEqual(a, b)
	case *StructV:
		y := b.(*StructV)
		for i := range x.f {
			if !s.valEqualConcrete(x.f[i], y.f[i]) {
				return false
			}
		}
		return true
	case Iface:
		return s.refEqual(a, b)
	}
	panic(abortf("interface comparison of %T not supported", a))
}

func isNilVal(v Value) bool {
	switch x := v.(type) {
	case nil:
		return true
	case Ptr:
		return x.IsNil()
	case Iface:
		return x.typ == nil
	case SliceV:
		return x.obj == nil
	case *MapV:
		return x == nil
	case *Closure:
		return x == nil
	}
	return false
}

func (s *State) shift(op token.Token, a, b *Term, unsA, unsB bool) Value {
	c := s.ctx
	w := a.Sort.W
	// normalise the shift count to width w, saturating
	var cnt *Term
	if b.Sort.W == w {
		cnt = b
	} else if b.Sort.W < w {
		if unsB {
			cnt = c.ZeroExt(b, w)
		} else {
			cnt = c.SignExt(b, w)
		}
	} else {
		big := c.BVUle(c.BVConst(uint64(w), b.Sort.W), b)
		cnt = c.Ite(big, c.BVConst(uint64(w), w), c.Extract(b, w-1, 0))
	}
	if !unsB {
		neg := c.BVSlt(b, c.BVConst(0, b.Sort.W))
		if neg.IsTrue() {
			s.panicReached("negative shift amount", "")
		}
		s.checkPanic(c.Not(neg), "negative shift amount")
	}
	if op == token.SHL {
		return c.BVShl(a, cnt)
	}
	if unsA {
		return c.BVLshr(a, cnt)
	}
	return c.BVAshr(a, cnt)
}

// ---------- conversions ----------

func (s *State) convert(v Value, from, to types.Type) Value {
	c := s.ctx
	fu, tu := from.Underlying(), to.Underlying()
	switch tb := tu.(type) {
	case *types.Basic:
		switch {
		case tb.Info()&types.IsInteger != 0:
			if isFloat(from) {
				return s.f2i(v.(*Term), intWidth(tb), isUnsigned(to))
			}
			if isInteger(from) {
				t := v.(*Term)
				w := intWidth(tb)
				switch {
				case t.Sort.W == w:
					return t
				case t.Sort.W > w:
					return c.Extract(t, w-1, 0)
				case isUnsigned(from):
					return c.ZeroExt(t, w)
				default:
					return c.SignExt(t, w)
				}
			}
			if _, ok := fu.(*types.Pointer); ok || fu == types.Typ[types.UnsafePointer] {
				panic(abortf("pointer to integer conversion not supported"))
			}
		case tb.Info()&types.IsFloat != 0:
			if isFloat(from) {
				if tb.Kind() == types.Float32 || fu.(*types.Basic).Kind() == types.Float32 {
					t := v.(*Term)
					if t.IsConst() && s.eng.cfg.Domain != DomainX {
						return t
					}
					panic(abortf("float32 conversions not supported"))
				}
				return v
			}
			if isInteger(from) {
				return s.i2f(v.(*Term), isUnsigned(from))
			}
		case tb.Info()&types.IsString != 0:
			switch fv := v.(type) {
			case *StrV:
				return fv
			case SliceV: // []byte or []rune -> string
				el := fu.(*types.Slice).Elem().Underlying().(*types.Basic)
				if el.Kind() == types.Uint8 {
					bs := make([]*Term, fv.n)
					if fv.n > 0 {
						arr := s.resolve(fv.obj).val.(*ArrayV)
						for i := range bs {
							bs[i] = arr.e[fv.off+i].(*Term)
						}
					}
					return strFromBytes(bs)
				}
				panic(abortf("[]rune to string not supported"))
			case *Term: // integer (rune) -> string
				if fv.IsConst() {
					return concStr(string(rune(sext(fv.U, fv.Sort.W))))
				}
				panic(abortf("symbolic rune to string conversion"))
			}
		case tb.Kind() == types.UnsafePointer:
			return v
		}
	case *types.Slice:
		if sv, ok := v.(*StrV); ok {
			el := tb.Elem().Underlying().(*types.Basic)
			if el.Kind() == types.Uint8 {
				bs := sv.Bytes(c)
				av := &ArrayV{e: make([]Value, len(bs))}
				for i, b := range bs {
					av.e[i] = b
				}
				o := s.newObject(av, "")
				return SliceV{obj: o, n: len(bs), cap: len(bs)}
			}
			if sv.isConc {
				rs := []rune(sv.conc)
				av := &ArrayV{e: make([]Value, len(rs))}
				for i, r := range rs {
					av.e[i] = c.BVConst(uint64(r), 32)
				}
				o := s.newObject(av, "")
				return SliceV{obj: o, n: len(rs), cap: len(rs)}
			}
			panic(abortf("symbolic string to []rune"))
		}
		return v
	case *types.Pointer:
		return v
	}
	if types.Identical(fu, tu) {
		return v
	}
	panic(abortf("unsupported conversion %v -> %v", from, to))
}

// ---------- maps ----------

func (s *State) mapKey(k Value) (string, bool) {
	switch x := k.(type) {
	case *Term:
		if x.IsConst() {
			return "t" + constStr(x), true
		}
		return "", false
	case *StrV:
		if x.isConc {
			return "s" + x.conc, true
		}
		return "", false
	case Ptr:
		if len(x.path) == 0 {
			if x.obj == nil {
				return "pnil", true
			}
			return fmt.Sprintf("p%d", x.obj.id), true
		}
	case Iface:
		if x.typ == nil {
			return "inil", true
		}
		ks, ok := s.mapKey(x.val)
		return "i" + x.typ.String() + ":" + ks, ok
	case *StructV:
		var sb strings.Builder
		sb.WriteString("{")
		for _, f := range x.f {
			ks, ok := s.mapKey(f)
			if !ok {
				return "", false
			}
			sb.WriteString(ks)
			sb.WriteString(";")
		}
		return sb.String(), true
	}
	panic(abortf("unsupported map key %T", k))
}

func (s *State) mapLookup(m *MapV, k Value) (Value, bool) {
	if m == nil {
		return nil, false
	}
	if ks, ok := s.mapKey(k); ok {
		// concrete key; entries with symbolic keys (if any) would need comparison
		if i, ok := m.index[ks]; ok {
			return m.entries[i].v, true
		}
		for _, e := range m.entries {
			if _, conc := s.mapKey(e.k); !conc {
				if s.branch(s.keyEq(e.k, k)) {
					return e.v, true
				}
			}
		}
		return nil, false
	}
	// symbolic key: decide against each entry in insertion order
	for _, e := range m.entries {
		eq := s.keyEq(e.k, k)
		if eq.IsFalse() {
			continue
		}
		if s.branch(eq) {
			return e.v, true
		}
	}
	return nil, false
}

func (s *State) keyEq(a, b Value) *Term {
	switch x := a.(type) {
	case *Term:
		return s.ctx.Eq(x, b.(*Term))
	case *StrV:
		return s.strEq(x, b.(*StrV))
	}
	panic(abortf("symbolic map key of type %T", a))
}

func (s *State) mapUpdate(mv Value, k, v Value) {
	m := mv.(*MapV)
	if m == nil {
		s.panicReached("assignment to entry in nil map", "")
	}
	if m.global && !s.initPhase {
		s.eng.noteGlobalMapWrite(s, m)
		panic(abortf("write to package-level map outside init"))
	}
	if m.frozen {
		s.eng.frozenWrite(s, "map")
	}
	ks, ok := s.mapKey(k)
	if !ok {
		// symbolic key: compare with existing
		for i, e := range m.entries {
			eq := s.keyEq(e.k, k)
			if eq.IsFalse() {
				continue
			}
			if s.branch(eq) {
				m.entries[i].v = copyVal(v)
				return
			}
		}
		m.entries = append(m.entries, mapEntry{k, copyVal(v)})
		return
	}
	if i, ok := m.index[ks]; ok {
		m.entries[i].v = copyVal(v)
		return
	}
	m.index[ks] = len(m.entries)
	m.entries = append(m.entries, mapEntry{k, copyVal(v)})
}

func (s *State) mapDelete(m *MapV, k Value) {
	if m == nil {
		return
	}
	ks, ok := s.mapKey(k)
	if !ok {
		panic(abortf("delete with symbolic key"))
	}
	if i, ok := m.index[ks]; ok {
		m.entries = append(m.entries[:i:i], m.entries[i+1:]...)
		m.index = map[string]int{}
		for j, e := range m.entries {
			if ks2, ok := s.mapKey(e.k); ok {
				m.index[ks2] = j
			}
		}
	}
}

// ---------- range ----------

func (s *State) rangeIter(x Value) Value {
	switch v := x.(type) {
	case *StrV:
		return &IterV{str: v}
	case *MapV:
		it := &IterV{m: v}
		if v != nil {
			it.keys = append(it.keys, v.entries...)
		}
		return it
	}
	panic(abortf("range over %T", x))
}

func (s *State) next(it *IterV, x *ssa.Next) Value {
	c := s.ctx
	if x.IsString {
		n := it.str.Len()
		if it.pos >= n {
			return TupleV{c.False(), c.BVConst(0, 64), c.BVConst(0, 32)}
		}
		b := it.str.Byte(c, it.pos)
		i := it.pos
		if b.IsConst() && b.U >= 0x80 || (!b.IsConst() && !s.branch(c.BVUlt(b, c.BVConst(0x80, 8)))) {
			if it.str.isConc {
				r, sz := utf8.DecodeRuneInString(it.str.conc[i:])
				it.pos += sz
				return TupleV{c.True(), c.BVConst(uint64(i), 64), c.BVConst(uint64(r), 32)}
			}
			panic(abortf("range over string with symbolic non-ASCII byte"))
		}
		it.pos++
		return TupleV{c.True(), c.BVConst(uint64(i), 64), c.ZeroExt(b, 32)}
	}
	if it.pos >= len(it.keys) {
		return TupleV{c.False(), nil, nil}
	}
	e := it.keys[it.pos]
	it.pos++
	return TupleV{c.True(), e.k, copyVal(e.v)}
}

// ---------- builtins ----------

func (s *State) callBuiltin(b *ssa.Builtin, args []Value, cc *ssa.CallCommon) Value {
	c := s.ctx
	switch b.Name() {
	case "len":
		switch x := args[0].(type) {
		case SliceV:
			return c.BVConst(uint64(x.n), 64)
		case *StrV:
			return c.BVConst(uint64(x.Len()), 64)
		case *MapV:
			if x == nil {
				return c.BVConst(0, 64)
			}
			return c.BVConst(uint64(len(x.entries)), 64)
		case *ArrayV:
			return c.BVConst(uint64(len(x.e)), 64)
		case Ptr:
			get, _ := s.cell(s.resolve(x.obj), x.path)
			return c.BVConst(uint64(len(get().(*ArrayV).e)), 64)
		}
	case "cap":
		switch x := args[0].(type) {
		case SliceV:
			return c.BVConst(uint64(x.cap), 64)
		case *ArrayV:
			return c.BVConst(uint64(len(x.e)), 64)
		}
	case "append":
		return s.appendOp(args[0].(SliceV), args[1], cc)
	case "copy":
		dst := args[0].(SliceV)
		var src []Value
		switch x := args[1].(type) {
		case SliceV:
			if x.n > 0 {
				arr := s.resolve(x.obj).val.(*ArrayV)
				src = append(src, arr.e[x.off:x.off+x.n]...)
			}
		case *StrV:
			for _, t := range x.Bytes(c) {
				src = append(src, t)
			}
		}
		n := len(src)
		if dst.n < n {
			n = dst.n
		}
		if n > 0 {
			s.eng.noteWrite(s, dst.obj)
			arr := s.writable(dst.obj).val.(*ArrayV)
			for i := 0; i < n; i++ {
				arr.e[dst.off+i] = copyVal(src[i])
			}
		}
		return c.BVConst(uint64(n), 64)
	case "panic":
		s.panicReached("explicit panic", describeVal(args[0]))
		return nil
	case "recover":
		return Iface{}
	case "print", "println":
		return nil
	case "delete":
		s.mapDelete(args[0].(*MapV), args[1])
		return nil
	case "min", "max":
		res := args[0].(*Term)
		t := cc.Args[0].Type()
		for _, a := range args[1:] {
			y := a.(*Term)
			if isFloat(t) {
				if b.Name() == "min" {
					res = s.fmin(res, y)
				} else {
					res = s.fmax(res, y)
				}
				continue
			}
			var lt *Term
			if isUnsigned(t) {
				lt = c.BVUlt(y, res)
			} else {
				lt = c.BVSlt(y, res)
			}
			if b.Name() == "max" {
				lt = c.Not(c.Or(lt, c.Eq(y, res)))
			}
			res = c.Ite(lt, y, res)
		}
		return res
	case "clear":
		switch x := args[0].(type) {
		case *MapV:
			x.entries = nil
			x.index = map[string]int{}
		case SliceV:
			if x.n > 0 {
				s.eng.noteWrite(s, x.obj)
				arr := s.writable(x.obj).val.(*ArrayV)
				z := s.zero(cc.Args[0].Type().Underlying().(*types.Slice).Elem())
				for i := 0; i < x.n; i++ {
					arr.e[x.off+i] = copyVal(z)
				}
			}
		}
		return nil
	case "String": // unsafe.String(ptr, len)
		p := args[0].(Ptr)
		n := s.concretizeLen(s.toInt64(args[1].(*Term), cc.Args[1].Type()), "unsafe.String len")
		if n == 0 {
			return concStr("")
		}
		if len(p.path) != 1 {
			panic(abortf("unsafe.String on unsupported pointer"))
		}
		arr := s.resolve(p.obj).val.(*ArrayV)
		bs := make([]*Term, n)
		for i := range bs {
			bs[i] = arr.e[p.path[0].idx+i].(*Term)
		}
		return strFromBytes(bs)
	case "SliceData":
		sv := args[0].(SliceV)
		if sv.obj == nil {
			return Ptr{}
		}
		return Ptr{obj: sv.obj, path: []PathElem{{idx: sv.off}}}
	case "StringData":
		sv := args[0].(*StrV)
		bs := sv.Bytes(c)
		av := &ArrayV{e: make([]Value, len(bs))}
		for i, b := range bs {
			av.e[i] = b
		}
		o := s.newObject(av, "")
		o.isConst = true
		return Ptr{obj: o, path: []PathElem{{idx: 0}}}
	case "Slice": // unsafe.Slice(ptr, len)
		p := args[0].(Ptr)
		n := s.concretizeLen(s.toInt64(args[1].(*Term), cc.Args[1].Type()), "unsafe.Slice len")
		if p.IsNil() || n == 0 {
			return SliceV{}
		}
		if len(p.path) != 1 {
			panic(abortf("unsafe.Slice on unsupported pointer"))
		}
		return SliceV{obj: p.obj, off: p.path[0].idx, n: n, cap: n}
	}
	panic(abortf("unsupported builtin %s on %T", b.Name(), args[0]))
}

var sizeClasses = []int{0, 8, 16, 24, 32, 48, 64, 80, 96, 112, 128, 144, 160, 176, 192, 208, 224, 240, 256, 288, 320, 352, 384, 416, 448, 480, 512, 576, 640, 704, 768, 896, 1024, 1152, 1280, 1408, 1536, 1792, 2048, 2304, 2688, 3072, 3200, 3456, 4096, 4864, 5376, 6144, 6528, 6784, 6912, 8192, 9472, 9728, 10240, 10880, 12288, 13568, 14336, 16384, 18432, 19072, 20480, 21760, 24576, 27264, 28672, 32768}

func roundupsize(n int) int {
	if n <= 32768 {
		for _, c := range sizeClasses {
			if c >= n {
				return c
			}
		}
	}
	return (n + 8191) &^ 8191
}

// growCap mirrors runtime.growslice's capacity computation (go1.23, amd64).
func growCap(oldCap, newLen, elemSize int) int {
	newcap := oldCap
	doublecap := newcap + newcap
	if newLen > doublecap {
		newcap = newLen
	} else {
		const threshold = 256
		if oldCap < threshold {
			newcap = doublecap
		} else {
			for {
				newcap += (newcap + 3*threshold) >> 2
				if uint(newcap) >= uint(newLen) {
					break
				}
			}
		}
	}
	if elemSize == 0 {
		return newcap
	}
	mem := roundupsize(newcap * elemSize)
	return mem / elemSize
}

func (s *State) appendOp(dst SliceV, src Value, cc *ssa.CallCommon) Value {
	var vals []Value
	switch x := src.(type) {
	case SliceV:
		if x.n > 0 {
			arr := s.resolve(x.obj).val.(*ArrayV)
			vals = append(vals, arr.e[x.off:x.off+x.n]...)
		}
	case *StrV:
		for _, t := range x.Bytes(s.ctx) {
			vals = append(vals, t)
		}
	default:
		panic(abortf("append of %T", src))
	}
	if len(vals) == 0 {
		return dst
	}
	newLen := dst.n + len(vals)
	if newLen <= dst.cap && dst.obj != nil {
		s.eng.noteWrite(s, dst.obj)
		arr := s.writable(dst.obj).val.(*ArrayV)
		for i, v := range vals {
			arr.e[dst.off+dst.n+i] = copyVal(v)
		}
		return SliceV{obj: dst.obj, off: dst.off, n: newLen, cap: dst.cap}
	}
	var elemT types.Type
	if cc != nil {
		elemT = cc.Args[0].Type().Underlying().(*types.Slice).Elem()
	}
	esz := 8
	if elemT != nil {
		esz = int(s.eng.sizes.Sizeof(elemT))
	}
	ncap := growCap(dst.cap, newLen, esz)
	if ncap < newLen {
		ncap = newLen
	}
	av := &ArrayV{e: make([]Value, ncap)}
	if dst.n > 0 {
		old := s.resolve(dst.obj).val.(*ArrayV)
		for i := 0; i < dst.n; i++ {
			av.e[i] = copyVal(old.e[dst.off+i])
		}
	}
	for i, v := range vals {
		av.e[dst.n+i] = copyVal(v)
	}
	if elemT != nil {
		var z Value
		for i := newLen; i < ncap; i++ {
			if z == nil {
				z = s.zero(elemT)
			}
			if _, ok := z.(*Term); ok {
				av.e[i] = z
			} else {
				av.e[i] = s.zero(elemT)
			}
		}
	}
	s.eng.noteAllocAppend(s, ncap)
	o := s.newObject(av, "")
	return SliceV{obj: o, off: 0, n: newLen, cap: ncap}
}

var _ = math.Abs
var _ = big.NewInt
