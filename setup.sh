#!/bin/sh
# Builds the symbolic executor offline from files on disk only.
set -e
cd "$(dirname "$0")/engine"
export GOFLAGS=-mod=mod GOPROXY=off GOSUMDB=off GOTOOLCHAIN=local
go build -o ../bin/gosym .
