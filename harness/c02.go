package h

import (
	geom "github.com/twpayne/go-geom"
	"github.com/twpayne/go-geom/internal/zzverif/sym"
)

// C02: one inductive Push step from an arbitrary well-formed pre-state.
// (base case: constructors give well-formed empty geometries — checked at the start of each harness.)

var c02Other = []geom.Layout{geom.XY, geom.XYZ, geom.XYM, geom.XYZM, geom.Layout(5), geom.Layout(6), geom.NoLayout}

func wrongLayout(name string, lay geom.Layout) geom.Layout {
	l := AnyLayout(name, c02Other)
	sym.Assume(l != lay)
	return l
}

var _ = register("HC02_MultiPolygonPush", HC02_MultiPolygonPush)

func HC02_MultiPolygonPush() {
	sym.Assert(WellFormed(geom.NewMultiPolygon(geom.XY), 3) && geom.NewMultiPolygon(geom.XYZ).NumPolygons() == 0, "base case")
	lay := AnyLayout("lay", Layouts)
	P, R, C := sym.Pick(2, 3), 2, 2
	sym.Bound("pre-state polygons", P)
	sym.Bound("rings", R)
	sym.Bound("coords", C)
	g := MultiPolygonWF("g", lay, P, R, C)
	n := g.NumPolygons()
	// snapshot of every part accessor before
	parts := make([]Snap, n)
	for i := 0; i < n; i++ {
		parts[i] = SnapOf(g.Polygon(i))
	}
	coordsBefore := g.Coords()
	if sym.Flip("mismatch") {
		p := PolygonWF("p", wrongLayout("lay2", lay), R, C)
		before := SnapOf(g)
		err := g.Push(p)
		lm, ok := err.(geom.ErrLayoutMismatch)
		sym.Assert(ok, "wrong layout rejected with ErrLayoutMismatch")
		if ok {
			sym.Assert(lm.Got == p.Layout() && lm.Want == lay, "ErrLayoutMismatch Got/Want")
		}
		sym.Assert(SameSnap(SnapOf(g), before), "failed Push leaves receiver unchanged")
		sym.Cover("rejected")
		return
	}
	p := PolygonWF("p", lay, R, C)
	pSnap := SnapOf(p)
	pCoords := p.Coords()
	err := g.Push(p)
	sym.Assert(err == nil, "push accepted")
	sym.Assert(g.NumPolygons() == n+1, "count")
	sym.Assert(WellFormed(g, 3), "well formed after push")
	for i := 0; i < n; i++ {
		sym.Assert(SameSnap(SnapOf(g.Polygon(i)), parts[i]), "earlier part unchanged")
	}
	if g.NumPolygons() == n+1 {
		np := SnapOf(g.Polygon(n))
		sym.Assert(np.Layout == pSnap.Layout && SameFlat(np.Flat, pSnap.Flat) && SameInts(np.Ends, pSnap.Ends), "new part equals pushed part")
		after := g.Coords()
		sym.Assert(len(after) == n+1 && SameCoords3(after[:n], coordsBefore) && SameCoords2(after[n], pCoords), "Coords = Coords ++ [part]")
	}
	sym.Cover("pushed")
}

var _ = register("HC02_PolygonPush", HC02_PolygonPush)

func HC02_PolygonPush() {
	lay := AnyLayout("lay", Layouts)
	R, C := sym.Pick(3, 4), sym.Pick(2, 3)
	sym.Bound("pre-state rings", R)
	sym.Bound("coords", C)
	mls := sym.Flip("mls")
	if mls {
		g := MultiLineStringWF("g", lay, R, C)
		n := g.NumLineStrings()
		parts := make([]Snap, n)
		for i := range parts {
			parts[i] = SnapOf(g.LineString(i))
		}
		cb := g.Coords()
		if sym.Flip("mismatch") {
			p := LineStringWF("p", wrongLayout("lay2", lay), C)
			before := SnapOf(g)
			lm, ok := g.Push(p).(geom.ErrLayoutMismatch)
			sym.Assert(ok && lm.Got == p.Layout() && lm.Want == lay, "wrong layout rejected")
			sym.Assert(SameSnap(SnapOf(g), before), "failed Push leaves receiver unchanged")
			sym.Cover("rejected")
			return
		}
		p := LineStringWF("p", lay, C)
		ps, pc := SnapOf(p), p.Coords()
		sym.Assert(g.Push(p) == nil, "push accepted")
		sym.Assert(g.NumLineStrings() == n+1 && WellFormed(g, 2), "count and well-formedness")
		for i := range parts {
			sym.Assert(SameSnap(SnapOf(g.LineString(i)), parts[i]), "earlier part unchanged")
		}
		if g.NumLineStrings() == n+1 {
			sym.Assert(SameSnap(SnapOf(g.LineString(n)), ps), "new part equals pushed part")
			after := g.Coords()
			sym.Assert(len(after) == n+1 && SameCoords2(after[:n], cb) && SameCoords1(after[n], pc), "Coords = Coords ++ [part]")
		}
		sym.Cover("pushed")
		return
	}
	g := PolygonWF("g", lay, R, C)
	n := g.NumLinearRings()
	parts := make([]Snap, n)
	for i := range parts {
		parts[i] = SnapOf(g.LinearRing(i))
	}
	cb := g.Coords()
	if sym.Flip("mismatch") {
		p := LinearRingWF("p", wrongLayout("lay2", lay), C)
		before := SnapOf(g)
		lm, ok := g.Push(p).(geom.ErrLayoutMismatch)
		sym.Assert(ok && lm.Got == p.Layout() && lm.Want == lay, "wrong layout rejected")
		sym.Assert(SameSnap(SnapOf(g), before), "failed Push leaves receiver unchanged")
		sym.Cover("rejected")
		return
	}
	p := LinearRingWF("p", lay, C)
	ps, pc := SnapOf(p), p.Coords()
	sym.Assert(g.Push(p) == nil, "push accepted")
	sym.Assert(g.NumLinearRings() == n+1 && WellFormed(g, 2), "count and well-formedness")
	for i := range parts {
		sym.Assert(SameSnap(SnapOf(g.LinearRing(i)), parts[i]), "earlier part unchanged")
	}
	if g.NumLinearRings() == n+1 {
		sym.Assert(SameSnap(SnapOf(g.LinearRing(n)), ps), "new part equals pushed part")
		after := g.Coords()
		sym.Assert(len(after) == n+1 && SameCoords2(after[:n], cb) && SameCoords1(after[n], pc), "Coords = Coords ++ [part]")
	}
	sym.Cover("pushed")
}

var _ = register("HC02_MultiPointPush", HC02_MultiPointPush)

func HC02_MultiPointPush() {
	lay := AnyLayout("lay", Layouts)
	N := sym.Pick(3, 5)
	sym.Bound("pre-state points", N)
	g := MultiPointWF("g", lay, N)
	n := g.NumPoints()
	parts := make([]Snap, n)
	for i := range parts {
		parts[i] = SnapOf(g.Point(i))
	}
	cb := g.Coords()
	if sym.Flip("mismatch") {
		p := PointWF("p", wrongLayout("lay2", lay))
		before := SnapOf(g)
		lm, ok := g.Push(p).(geom.ErrLayoutMismatch)
		sym.Assert(ok && lm.Got == p.Layout() && lm.Want == lay, "wrong layout rejected")
		sym.Assert(SameSnap(SnapOf(g), before), "failed Push leaves receiver unchanged")
		sym.Cover("rejected")
		return
	}
	p := PointWF("p", lay)
	ps := SnapOf(p)
	sym.Assert(g.Push(p) == nil, "push accepted")
	sym.Assert(g.NumPoints() == n+1 && WellFormed(g, 2), "count and well-formedness")
	for i := range parts {
		sym.Assert(SameSnap(SnapOf(g.Point(i)), parts[i]), "earlier part unchanged")
	}
	if g.NumPoints() == n+1 {
		sym.Assert(SameSnap(SnapOf(g.Point(n)), ps), "new part equals pushed part (empty stays empty)")
		after := g.Coords()
		sym.Assert(len(after) == n+1 && SameCoords1(after[:n], cb) && SameCoord(after[n], p.FlatCoords()), "Coords = Coords ++ [part]")
	}
	sym.Cover("pushed")
}

var _ = register("HC02_Reverse", HC02_Reverse)

// HC02_Reverse: Reverse reverses the vertex order of every part and nothing else; Swap exchanges everything.
func HC02_Reverse() {
	lay := AnyLayout("lay", Layouts)
	stride := lay.Stride()
	P, R, C := 2, 2, sym.Pick(3, 4)
	if sym.Thorough() {
		P = 3
	}
	sym.Bound("polygons", P)
	sym.Bound("rings", R)
	sym.Bound("coords", C)
	g := MultiPolygonWF("g", lay, P, R, C)
	before := SnapOf(g)
	cb := g.Coords()
	g.Reverse()
	after := SnapOf(g)
	sym.Assert(after.Layout == before.Layout && SameIntss(after.Endss, before.Endss) && len(after.Flat) == len(before.Flat), "Reverse keeps layout, offsets and size")
	ca := g.Coords()
	sym.Assert(len(ca) == len(cb), "same number of parts")
	for i := range cb {
		if len(ca[i]) != len(cb[i]) {
			sym.Assert(false, "same number of rings")
			continue
		}
		for j := range cb[i] {
			n := len(cb[i][j])
			sym.Assert(len(ca[i][j]) == n, "same ring length")
			for k := 0; k < n && k < len(ca[i][j]); k++ {
				sym.Assert(SameCoord(ca[i][j][k], cb[i][j][n-1-k]), "vertex order reversed within the ring")
			}
		}
	}
	_ = stride
	sym.Cover("end")
}

var _ = register("HC02_Swap", HC02_Swap)

// HC02_Swap: Swap exchanges the two values completely.
func HC02_Swap() {
	g := MultiPolygonWF("g", AnyLayout("lay", Layouts), 2, 1, 1)
	h2 := MultiPolygonWF("h", AnyLayout("lay2", Layouts), 1, 1, 2)
	h2.SetSRID(sym.Int("srid2", 0, 1<<31))
	g.SetSRID(sym.Int("srid1", 0, 1<<31))
	sg, sh := SnapOf(g), SnapOf(h2)
	g.Swap(h2)
	sym.Assert(SameSnap(SnapOf(g), sh) && SameSnap(SnapOf(h2), sg) && g.SRID() == sh.SRID && h2.SRID() == sg.SRID, "Swap exchanges the two values completely")
	p, q := PointWF("p", geom.XY), PointWF("q", geom.XYZ)
	sp, sq := SnapOf(p), SnapOf(q)
	p.Swap(q)
	sym.Assert(SameSnap(SnapOf(p), sq) && SameSnap(SnapOf(q), sp), "Point.Swap")
	sym.Cover("end")
}

var _ = register("HC02_Reverse12", HC02_Reverse12)

// HC02_Reverse12: Reverse on LineString and Polygon.
func HC02_Reverse12() {
	lay := AnyLayout("lay", Layouts)
	C := sym.Pick(4, 5)
	sym.Bound("coords", C)
	l := LineStringWF("l", lay, C)
	cb := l.Coords()
	l.Reverse()
	ca := l.Coords()
	sym.Assert(len(ca) == len(cb), "same length")
	for k := range cb {
		if k < len(ca) {
			sym.Assert(SameCoord(ca[k], cb[len(cb)-1-k]), "linestring reversed")
		}
	}
	p := PolygonWF("p", lay, 3, 3)
	pb, ends := p.Coords(), CopyInts(p.Ends())
	p.Reverse()
	pa := p.Coords()
	sym.Assert(SameInts(p.Ends(), ends) && len(pa) == len(pb), "offsets unchanged")
	for j := range pb {
		if j < len(pa) && len(pa[j]) == len(pb[j]) {
			for k := range pb[j] {
				sym.Assert(SameCoord(pa[j][k], pb[j][len(pb[j])-1-k]), "ring reversed")
			}
		} else {
			sym.Assert(false, "ring count/length changed")
		}
	}
	sym.Cover("end")
}

var _ = register("HC02_Collection", HC02_Collection)

// HC02_Collection: GeometryCollection.Push with and without a fixed layout.
func HC02_Collection() {
	gc := geom.NewGeometryCollection()
	sym.Assert(gc.NumGeoms() == 0, "base case")
	n := Count("n", 0, 2)
	var pre []geom.T
	for i := 0; i < n; i++ {
		pre = append(pre, PointWF(sym.N("pre", i), AnyLayout(sym.N("prelay", i), Layouts)))
	}
	sym.Assert(gc.Push(pre...) == nil, "layout-free collection accepts anything")
	fixed := geom.NoLayout
	if sym.Flip("fix") {
		fixed = AnyLayout("fixed", Layouts)
		err := gc.SetLayout(fixed)
		ok := true
		for _, g := range pre {
			if g.Layout() != fixed {
				ok = false
			}
		}
		sym.Assert((err == nil) == ok, "SetLayout succeeds iff every member has that layout")
		if err != nil {
			fixed = geom.NoLayout
		}
	}
	a := LineStringWF("a", AnyLayout("alay", Layouts), 2)
	b := PointWF("b", AnyLayout("blay", Layouts))
	err := gc.Push(a, b)
	want := fixed == geom.NoLayout || (a.Layout() == fixed && b.Layout() == fixed)
	sym.Assert((err == nil) == want, "Push succeeds iff layouts match the fixed layout")
	if err != nil {
		_, ok := err.(geom.ErrLayoutMismatch)
		sym.Assert(ok, "layout mismatch error type")
		sym.Assert(gc.NumGeoms() == n, "failed Push leaves receiver unchanged")
		sym.Cover("rejected")
		return
	}
	sym.Assert(gc.NumGeoms() == n+2, "count")
	for i := 0; i < n; i++ {
		sym.Assert(gc.Geom(i) == pre[i], "earlier members unchanged")
	}
	sym.Assert(gc.Geom(n) == geom.T(a) && gc.Geom(n+1) == geom.T(b), "new members are the pushed geometries")
	sym.Cover("pushed")
}
