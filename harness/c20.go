package h

import (
	"github.com/twpayne/go-geom/internal/zzverif/sym"
	"github.com/twpayne/go-geom/xy"
)

// C20: Douglas-Peucker honours its threshold (domain X: integer-grid ordinates, exact squared
// distances; the division inside distanceFromSegmentSquared is followed in exact real arithmetic).

// withinSq: squared distance of p from segment [a,b] <= thr^2, division free, non-forking.
func withinSq(px, py, ax, ay, bx, by, thr float64) bool {
	dx, dy := bx-ax, by-ay
	den := dx*dx + dy*dy
	num := (px-ax)*dx + (py-ay)*dy
	da := (px-ax)*(px-ax) + (py-ay)*(py-ay)
	db := (px-bx)*(px-bx) + (py-by)*(py-by)
	cross := (px-ax)*dy - (py-ay)*dx
	t2 := thr * thr
	return sym.Or(
		sym.And(sym.Or(sym.FEq(den, 0), sym.FLe(num, 0)), sym.FLe(da, t2)),
		sym.And(sym.Not(sym.FEq(den, 0)), sym.FLe(den, num), sym.FLe(db, t2)),
		sym.And(sym.Not(sym.FEq(den, 0)), sym.FLt(0, num), sym.FLt(num, den), sym.FLe(cross*cross, t2*den)),
	)
}

// ---- summary of distanceFromSegmentSquared (justified by HC20_Distance) ----

const distFn = "github.com/twpayne/go-geom/xy.distanceFromSegmentSquared"

func exactDistSq(v []float64) float64 {
	px, py, ax, ay, bx, by := v[0], v[1], v[2], v[3], v[4], v[5]
	dx, dy := bx-ax, by-ay
	den := dx*dx + dy*dy
	num := (px-ax)*dx + (py-ay)*dy
	switch {
	case den == 0 || num <= 0:
		return (px-ax)*(px-ax) + (py-ay)*(py-ay)
	case num >= den:
		return (px-bx)*(px-bx) + (py-by)*(py-by)
	}
	cross := (px-ax)*dy - (py-ay)*dx
	return cross * cross / den
}

// distSq is the squared distance as an uninterpreted function D(p; a, b) >= 0.
func distSq(px, py, ax, ay, bx, by float64) float64 {
	d := sym.UFReal("D", exactDistSq, px, py, ax, ay, bx, by)
	sym.Assume(sym.FLe(0, d))
	return d
}

func useDistanceSummary() {
	sym.Replace(distFn, func(a, b, p []float64) float64 { return distSq(p[0], p[1], a[0], a[1], b[0], b[1]) })
}

// checkSimplifiedUF is checkSimplified with the distance taken from the summary.
func checkSimplifiedUF(flat []float64, idx []int, n, stride int, thr float64, what string) {
	if n < 3 {
		sym.Assert(len(idx) == n, what+": fewer than three points are all kept")
		for i := range idx {
			sym.Assert(idx[i] == i, what+": fewer than three points are all kept, in order")
		}
		return
	}
	sym.Assert(len(idx) >= 2 && len(idx) <= n, what+": between 2 and n indexes")
	if len(idx) < 2 {
		return
	}
	sym.Assert(idx[0] == 0 && idx[len(idx)-1] == n-1, what+": first and last point retained")
	for q := 1; q < len(idx); q++ {
		j, k := idx[q-1], idx[q]
		sym.Assert(j < k && k < n && j >= 0, what+": indexes strictly increasing and in range")
		if !(j < k && k < n && j >= 0) {
			return
		}
		for i := j + 1; i < k; i++ {
			d := distSq(flat[i*stride], flat[i*stride+1], flat[j*stride], flat[j*stride+1], flat[k*stride], flat[k*stride+1])
			sym.Assert(sym.FLe(d, thr*thr), what+": omitted point within the threshold of the segment joining its retained neighbours")
		}
	}
}

var _ = register("HC20_Worker", HC20_Worker)

// HC20_Worker: the interval stack / mask logic of dpWorker for n up to 7|8 points with the distance
// function summarised (uninterpreted, >= 0): retained indexes, threshold guarantee, idempotence.
func HC20_Worker() {
	N := sym.Param("N", sym.Pick(6, 7))
	K := 10
	sym.Bound("points", N)
	n := Count("n", 0, N)
	stride := []int{2, 3, 5}[sym.Choose("stride", 0, sym.Pick(1, 2))]
	flat := gridLine(n, stride, K)
	var thr float64
	if !sym.Flip("zero threshold") {
		thr = sym.Float64Range("thr4", 0, 1<<13) / 4
	}
	sym.Freeze(flat)
	useDistanceSummary()
	idx := xy.SimplifyFlatCoords(flat, thr, stride)
	checkSimplifiedUF(flat, idx, n, stride, thr, "simplify")
	m := len(idx)
	if n >= 3 && m >= 2 && m <= n {
		flat2 := make([]float64, 0, m*stride)
		for _, i := range idx {
			if i < 0 || i >= n {
				return
			}
			flat2 = append(flat2, flat[i*stride:i*stride+stride]...)
		}
		idx2 := xy.SimplifyFlatCoords(flat2, thr, stride)
		sym.Assert(len(idx2) == m, "simplifying the simplified line again removes nothing")
	}
	sym.Cover("end")
}

func gridLine(n, stride, k int) []float64 {
	flat := make([]float64, n*stride)
	for i := range flat {
		flat[i] = sym.Float64Grid(sym.N("c", i), k)
	}
	return flat
}

func checkSimplified(flat []float64, idx []int, n, stride int, thr float64, what string) {
	if n < 3 {
		sym.Assert(len(idx) == n, what+": fewer than three points are all kept")
		for i := range idx {
			sym.Assert(idx[i] == i, what+": fewer than three points are all kept, in order")
		}
		return
	}
	sym.Assert(len(idx) >= 2 && len(idx) <= n, what+": between 2 and n indexes")
	if len(idx) < 2 {
		return
	}
	sym.Assert(idx[0] == 0 && idx[len(idx)-1] == n-1, what+": first and last point retained")
	for q := 1; q < len(idx); q++ {
		j, k := idx[q-1], idx[q]
		sym.Assert(j < k && k < n && j >= 0, what+": indexes strictly increasing and in range")
		if !(j < k && k < n && j >= 0) {
			return
		}
		for i := j + 1; i < k; i++ {
			sym.Assert(withinSq(flat[i*stride], flat[i*stride+1], flat[j*stride], flat[j*stride+1], flat[k*stride], flat[k*stride+1], thr),
				what+": omitted point within the threshold of the segment joining its retained neighbours")
		}
	}
}

var _ = register("HC20_Simplify", HC20_Simplify)

func HC20_Simplify() {
	N := sym.Param("N", 3) // end to end; 4 points do not come back from nlsat
	K := sym.Param("K", 10)
	sym.Bound("points", N)
	sym.Bound("grid bits", K)
	n := Count("n", 0, N)
	stride := []int{2, 3, 5}[sym.Choose("stride", 0, sym.Pick(1, 2))]
	flat := gridLine(n, stride, K)
	thr := sym.Float64Range("thr4", 0, 1<<13) / 4 // threshold k/4, 0 <= thr <= 2048
	sym.Freeze(flat)
	idx := xy.SimplifyFlatCoords(flat, thr, stride)
	checkSimplified(flat, idx, n, stride, thr, "simplify")
	sym.Cover("end")
}

var _ = register("HC20_Idempotent", HC20_Idempotent)

// HC20_Idempotent: simplifying the simplified line again removes nothing; threshold 0 drops only
// points exactly on the segment (that is checkSimplified with thr = 0).
func HC20_Idempotent() {
	N := sym.Pick(4, 5)
	K := 10
	sym.Bound("points", N)
	sym.Bound("grid bits", K)
	n := Count("n", 3, N)
	stride := 2
	flat := gridLine(n, stride, K)
	var thr float64
	if !sym.Flip("zero threshold") {
		thr = sym.Float64Range("thr4", 0, 1<<13) / 4
	}
	idx := xy.SimplifyFlatCoords(flat, thr, stride)
	checkSimplified(flat, idx, n, stride, thr, "simplify")
	m := len(idx)
	if m > n || m < 2 {
		return
	}
	flat2 := make([]float64, 0, m*stride)
	for _, i := range idx {
		if i < 0 || i >= n {
			return
		}
		flat2 = append(flat2, flat[i*stride], flat[i*stride+1])
	}
	idx2 := xy.SimplifyFlatCoords(flat2, thr, stride)
	sym.Assert(len(idx2) == m, "simplifying the simplified line again removes nothing")
	sym.Cover("end")
}
