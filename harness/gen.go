package h

// Generators for symbolic geometries. Plain Go over the sym API; every shape parameter is a
// symbolic integer that the executor enumerates, every ordinate is a symbolic float64.

import (
	"math"

	geom "github.com/twpayne/go-geom"
	"github.com/twpayne/go-geom/internal/zzverif/sym"
)

// Ord returns a fresh symbolic ordinate (any bit pattern).
func Ord(name string) float64 {
	if concreteOrds != 0 {
		ordCounter++
		k := uint64(ordCounter)
		switch concreteOrds {
		case 1: // every byte distinct within the ordinate, every hex digit used
			return math.Float64frombits(0x0123456789abcdef ^ (k * 0x0101010101010101))
		case 2:
			return math.Float64frombits(0xfedcba9876543210 + k*0x1f)
		default: // small integers and specials
			return []float64{0, -1.5, math.Inf(1), math.Float64frombits(0x7ff8000000000001), math.Copysign(0, -1), 1e300, 5e-324}[k%7]
		}
	}
	return sym.Float64Bits(name)
}

// concreteOrds != 0 makes Ord return concrete bit patterns (used where the subject is a byte<->text
// mapping of the standard library rather than the ordinates: hex wrappers).
var (
	concreteOrds int
	ordCounter   int
)

// Layouts is the set of layouts most harnesses quantify over.
var Layouts = []geom.Layout{geom.XY, geom.XYZ, geom.XYM, geom.XYZM, geom.Layout(5)}

// AnyLayout picks one of ls (enumerated).
func AnyLayout(name string, ls []geom.Layout) geom.Layout {
	return ls[sym.Choose(name, 0, len(ls)-1)]
}

// Count is a symbolic count in [lo,hi], enumerated.
func Count(name string, lo, hi int) int {
	return sym.Choose(name, lo, hi)
}

// Flat returns n symbolic ordinates.
func Flat(prefix string, n int) []float64 {
	if n == 0 && sym.Flip(prefix+".nil") {
		return nil
	}
	f := make([]float64, n)
	for i := range f {
		f[i] = Ord(sym.N(prefix, i))
	}
	return f
}

// Shape2 describes a well-formed geom2 structure (Polygon / MultiLineString): number of
// coordinates per part; empty parts allowed.
func Shape2(prefix string, maxParts, maxCoords int) []int {
	n := Count(prefix+".parts", 0, maxParts)
	out := make([]int, n)
	for i := range out {
		out[i] = Count(sym.N(prefix+".n", i), 0, maxCoords)
	}
	return out
}

// Ends2 turns a shape into cumulative end offsets.
func Ends2(shape []int, stride, base int) []int {
	ends := make([]int, len(shape))
	off := base
	for i, n := range shape {
		off += n * stride
		ends[i] = off
	}
	return ends
}

func total(shape []int) int {
	t := 0
	for _, n := range shape {
		t += n
	}
	return t
}

// PolygonWF is an arbitrary well-formed Polygon: <=maxRings rings of <=maxCoords coordinates.
func PolygonWF(prefix string, lay geom.Layout, maxRings, maxCoords int) *geom.Polygon {
	shape := Shape2(prefix, maxRings, maxCoords)
	stride := lay.Stride()
	flat := Flat(prefix+".c", total(shape)*stride)
	var ends []int
	if len(shape) > 0 || !sym.Flip(prefix+".endsnil") {
		ends = Ends2(shape, stride, 0)
	}
	return geom.NewPolygonFlat(lay, flat, ends)
}

// MultiLineStringWF is an arbitrary well-formed MultiLineString.
func MultiLineStringWF(prefix string, lay geom.Layout, maxLines, maxCoords int) *geom.MultiLineString {
	shape := Shape2(prefix, maxLines, maxCoords)
	stride := lay.Stride()
	flat := Flat(prefix+".c", total(shape)*stride)
	var ends []int
	if len(shape) > 0 || !sym.Flip(prefix+".endsnil") {
		ends = Ends2(shape, stride, 0)
	}
	return geom.NewMultiLineStringFlat(lay, flat, ends)
}

// LineStringWF is an arbitrary well-formed LineString of <=maxCoords coordinates.
func LineStringWF(prefix string, lay geom.Layout, maxCoords int) *geom.LineString {
	n := Count(prefix+".n", 0, maxCoords)
	return geom.NewLineStringFlat(lay, Flat(prefix+".c", n*lay.Stride()))
}

// LinearRingWF is an arbitrary well-formed LinearRing of <=maxCoords coordinates.
func LinearRingWF(prefix string, lay geom.Layout, maxCoords int) *geom.LinearRing {
	n := Count(prefix+".n", 0, maxCoords)
	return geom.NewLinearRingFlat(lay, Flat(prefix+".c", n*lay.Stride()))
}

// PointWF is an arbitrary well-formed Point (possibly empty).
func PointWF(prefix string, lay geom.Layout) *geom.Point {
	if sym.Flip(prefix + ".empty") {
		return geom.NewPointEmpty(lay)
	}
	return geom.NewPointFlat(lay, Flat(prefix+".c", lay.Stride()))
}

// MultiPointWF is an arbitrary well-formed MultiPoint: each member is a point or empty.
func MultiPointWF(prefix string, lay geom.Layout, maxPoints int) *geom.MultiPoint {
	n := Count(prefix+".n", 0, maxPoints)
	stride := lay.Stride()
	shape := make([]int, n)
	for i := range shape {
		if sym.Flip(sym.N(prefix+".has", i)) {
			shape[i] = 1
		}
	}
	flat := Flat(prefix+".c", total(shape)*stride)
	var ends []int
	if n > 0 || !sym.Flip(prefix+".endsnil") {
		ends = Ends2(shape, stride, 0)
	}
	return geom.NewMultiPointFlat(lay, flat, geom.NewMultiPointFlatOptionWithEnds(ends))
}

// MultiPolygonWF is an arbitrary well-formed MultiPolygon: <=maxPolys polygons (each possibly
// empty, represented by a nil or empty ends row), each of <=maxRings rings of <=maxCoords coords.
func MultiPolygonWF(prefix string, lay geom.Layout, maxPolys, maxRings, maxCoords int) *geom.MultiPolygon {
	np := Count(prefix+".polys", 0, maxPolys)
	stride := lay.Stride()
	shapes := make([][]int, np)
	tot := 0
	for i := range shapes {
		shapes[i] = Shape2(sym.N(prefix+".p", i), maxRings, maxCoords)
		tot += total(shapes[i])
	}
	flat := Flat(prefix+".c", tot*stride)
	var endss [][]int
	if np > 0 {
		endss = make([][]int, np)
		off := 0
		for i, sh := range shapes {
			if len(sh) == 0 && sym.Flip(sym.N(prefix+".rownil", i)) {
				endss[i] = nil
			} else {
				endss[i] = Ends2(sh, stride, off)
			}
			off += total(sh) * stride
		}
	}
	if total2(shapes) > 0 {
		sym.Tag("nonempty")
	}
	for _, sh := range shapes {
		if len(sh) == 0 {
			sym.Tag("has-empty-polygon")
		}
	}
	return geom.NewMultiPolygonFlat(lay, flat, endss)
}

func total2(shapes [][]int) int {
	t := 0
	for _, s := range shapes {
		t += total(s)
	}
	return t
}

// ---- comparison helpers (non-forking) ----

// SameFlat: same length (nil-ness ignored) and identical bits.
func SameFlat(a, b []float64) bool {
	if len(a) != len(b) {
		return false
	}
	cs := make([]bool, len(a))
	for i := range a {
		cs[i] = sym.SameBits(a[i], b[i])
	}
	return sym.And(cs...)
}

func SameInts(a, b []int) bool {
	if len(a) != len(b) {
		return false
	}
	cs := make([]bool, len(a))
	for i := range a {
		cs[i] = sym.EqInt(a[i], b[i])
	}
	return sym.And(cs...)
}

func SameIntss(a, b [][]int) bool {
	if len(a) != len(b) {
		return false
	}
	cs := make([]bool, len(a))
	for i := range a {
		cs[i] = SameInts(a[i], b[i])
	}
	return sym.And(cs...)
}

func CopyFlat(a []float64) []float64 {
	if a == nil {
		return nil
	}
	c := make([]float64, len(a))
	copy(c, a)
	return c
}

func CopyInts(a []int) []int {
	if a == nil {
		return nil
	}
	c := make([]int, len(a))
	copy(c, a)
	return c
}

func CopyIntss(a [][]int) [][]int {
	if a == nil {
		return nil
	}
	c := make([][]int, len(a))
	for i := range a {
		c[i] = CopyInts(a[i])
	}
	return c
}

// Snap is an independent deep snapshot of the observable state of a geometry.
type Snap struct {
	Layout geom.Layout
	Stride int
	SRID   int
	Flat   []float64
	Ends   []int
	Endss  [][]int
}

func SnapOf(g geom.T) Snap {
	return Snap{Layout: g.Layout(), Stride: g.Stride(), SRID: g.SRID(), Flat: CopyFlat(g.FlatCoords()), Ends: CopyInts(g.Ends()), Endss: CopyIntss(g.Endss())}
}

// SameSnap: layout, stride, flat bits, ends, endss all equal (SRID compared separately).
func SameSnap(a, b Snap) bool {
	if a.Layout != b.Layout || a.Stride != b.Stride {
		return false
	}
	return sym.And(SameFlat(a.Flat, b.Flat), SameInts(a.Ends, b.Ends), SameIntss(a.Endss, b.Endss))
}

// Rebase returns ends shifted by -off.
func Rebase(ends []int, off int) []int {
	out := make([]int, len(ends))
	for i, e := range ends {
		out[i] = e - off
	}
	return out
}

// WellFormed is the structural invariant of property C01, written over the public accessors only.
// level: 0 point, 1 linestring/ring, 2 polygon/multilinestring/multipoint, 3 multipolygon.
func WellFormed(g geom.T, level int) bool {
	stride := g.Stride()
	if stride != g.Layout().Stride() {
		return false
	}
	flat := g.FlatCoords()
	if stride == 0 {
		// NoLayout: no coordinates; end offsets (empty rings/lines/polygons kept in position) are all 0,
		// which is aligned, non-decreasing and finishes at the end of the (empty) coordinates
		if len(flat) != 0 {
			return false
		}
		for _, e := range g.Ends() {
			if e != 0 {
				return false
			}
		}
		for _, ends := range g.Endss() {
			for _, e := range ends {
				if e != 0 {
					return false
				}
			}
		}
		return true
	}
	if len(flat)%stride != 0 {
		return false
	}
	switch level {
	case 0:
		return len(flat) == 0 || len(flat) == stride
	case 1:
		return true
	case 2:
		off := 0
		for _, e := range g.Ends() {
			if e%stride != 0 || e < off {
				return false
			}
			off = e
		}
		return off == len(flat)
	default:
		off := 0
		for _, ends := range g.Endss() {
			for _, e := range ends {
				if e%stride != 0 || e < off {
					return false
				}
				off = e
			}
		}
		return off == len(flat)
	}
}

// SameCoords1 compares nested coordinates bit for bit (nil and empty coordinate treated alike unless strictNil).
func SameCoord(a, b geom.Coord) bool { return SameFlat(a, b) }

func SameCoords1(a, b []geom.Coord) bool {
	if len(a) != len(b) {
		return false
	}
	cs := make([]bool, len(a))
	for i := range a {
		cs[i] = SameCoord(a[i], b[i])
	}
	return sym.And(cs...)
}

func SameCoords2(a, b [][]geom.Coord) bool {
	if len(a) != len(b) {
		return false
	}
	cs := make([]bool, len(a))
	for i := range a {
		cs[i] = SameCoords1(a[i], b[i])
	}
	return sym.And(cs...)
}

func SameCoords3(a, b [][][]geom.Coord) bool {
	if len(a) != len(b) {
		return false
	}
	cs := make([]bool, len(a))
	for i := range a {
		cs[i] = SameCoords2(a[i], b[i])
	}
	return sym.And(cs...)
}
