package h

import (
	geom "github.com/twpayne/go-geom"
	"github.com/twpayne/go-geom/bigxy"
	"github.com/twpayne/go-geom/encoding/ewkb"
	"github.com/twpayne/go-geom/encoding/wkb"
	"github.com/twpayne/go-geom/internal/zzverif/sym"
	"github.com/twpayne/go-geom/xy"
)

// C17: purity. Every argument handed to the library is frozen; the executor's write monitor reports
// any store (on any path, for any input of the bound) to caller-owned memory or to a package-level
// variable outside init. A function whose writes go only to memory it allocated itself is
// deterministic in its arguments and data-race free under any number of concurrent calls on shared
// inputs (no write conflicts with any access of another call): the interleavings need not be explored.
// The same monitors are active in every harness of the other properties.

func anyGeom17(prefix string) geom.T {
	lay := AnyLayout(prefix+".lay", Layouts4)
	switch Count(prefix+".type", 0, 6) {
	case 0:
		return PointWF(prefix, lay)
	case 1:
		return LineStringWF(prefix, lay, 3)
	case 2:
		return LinearRingWF(prefix, lay, 3)
	case 3:
		return PolygonWF(prefix, lay, 2, 2)
	case 4:
		return MultiPointWF(prefix, lay, 2)
	case 5:
		return MultiLineStringWF(prefix, lay, 2, 2)
	default:
		return MultiPolygonWF(prefix, lay, 2, 1, 2)
	}
}

var _ = register("HC17_Measures", HC17_Measures)

// HC17_Measures: Bounds / Length / Area / Empty / Stride / Layout / Ends / FlatCoords / Clone on every
// geometry type: nothing caller-owned or global is written, and a second call returns the same bits.
func HC17_Measures() {
	g := anyGeom17("g")
	sym.Freeze(g)
	b1, l1, a1, e1 := g.Bounds(), measure(g, 0), measure(g, 1), g.Empty()
	b2, l2, a2, e2 := g.Bounds(), measure(g, 0), measure(g, 1), g.Empty()
	sym.Assert(sym.SameBits(l1, l2) && sym.SameBits(a1, a2) && e1 == e2, "Length/Area/Empty: same result when called again")
	cs := []bool{b1.Layout() == b2.Layout()}
	for d := 0; d < b1.Layout().Stride() && d < b2.Layout().Stride(); d++ {
		cs = append(cs, sym.SameBits(b1.Min(d), b2.Min(d)), sym.SameBits(b1.Max(d), b2.Max(d)))
	}
	sym.Assert(sym.And(cs...), "Bounds: same result when called again")
	sym.Cover("end")
}

func measure(g geom.T, which int) float64 {
	type lengther interface{ Length() float64 }
	type areaer interface{ Area() float64 }
	if which == 0 {
		if x, ok := g.(lengther); ok {
			return x.Length()
		}
		return 0
	}
	if x, ok := g.(areaer); ok {
		return x.Area()
	}
	return 0
}

var _ = register("HC17_Codecs", HC17_Codecs)

// HC17_Codecs: wkb/ewkb encoders never write to the geometry, decoders never write to the byte slice;
// package-level state (MaxGeometryElements) is only read.
func HC17_Codecs() {
	g := anyGeom17("g")
	assumeNoNaNPoint(g)
	sym.Freeze(g)
	var data []byte
	var err error
	isEWKB := sym.Flip("ewkb")
	if isEWKB {
		data, err = ewkb.Marshal(g, ewkb.NDR)
	} else {
		data, err = wkb.Marshal(g, wkb.XDR)
	}
	if err != nil {
		sym.Cover("end")
		return
	}
	sym.Freeze(data)
	var d1, d2 geom.T
	if isEWKB {
		d1, _ = ewkb.Unmarshal(data)
		d2, _ = ewkb.Unmarshal(data)
	} else {
		d1, _ = wkb.Unmarshal(data)
		d2, _ = wkb.Unmarshal(data)
	}
	if d1 != nil && d2 != nil {
		sym.Assert(SameGeomT(d1, d2), "decoding the same bytes twice gives the same geometry")
		sym.Assert(sym.NoAlias(d1, d2) && sym.NoAlias(d1, data), "decoded geometries share no storage with each other or with the input")
	}
	sym.Cover("end")
}

var _ = register("HC17_Orientation", HC17_Orientation)

// HC17_Orientation (domain X): the orientation predicate including its extended-precision fallback keeps
// no state between calls (big.Float temporaries are locals).
func HC17_Orientation() {
	o, e, p := gridCoord("o", 25, 0), gridCoord("e", 25, 0), gridCoord("p", 25, 0)
	sym.Freeze(o)
	sym.Freeze(e)
	sym.Freeze(p)
	a := bigxy.OrientationIndex(o, e, p)
	b := bigxy.OrientationIndex(o, e, p)
	sym.Assert(a == b, "same result when called again")
	sym.Cover("end")
}

var _ = register("HC17_Planar", HC17_Planar)

// HC17_Planar (domain X): hull, simplification, ring direction, signed area, point location on frozen
// inputs (orientation predicate summarised; its own purity is HC17_Orientation).
func HC17_Planar() {
	n := 4
	in := make([]float64, n*2)
	for i := range in {
		in[i] = sym.Float64Grid(sym.N("c", i), 20)
	}
	sym.Freeze(in)
	useOrientationSummaryH()
	switch sym.Choose("fn", 0, 2) {
	case 0:
		xy.ConvexHullFlat(geom.XY, in)
	case 1:
		xy.SimplifyFlatCoords(in, 1, 2)
	default:
		xy.SignedArea(geom.XY, in)
	}
	sym.Cover("end")
}
