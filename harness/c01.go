package h

import (
	geom "github.com/twpayne/go-geom"
	"github.com/twpayne/go-geom/internal/zzverif/sym"
)

// C01: SetCoords / Coords round trip, well-formedness, stride-mismatch rejection.

var c01Layouts = []geom.Layout{geom.NoLayout, geom.XY, geom.XYZ, geom.XYM, geom.XYZM, geom.Layout(5), geom.Layout(6)}

// coordGen hands out coordinates of the layout's stride, except that at most one coordinate
// (chosen symbolically among those actually present) has a different, symbolic length in 0..7.
// Shapes are chosen first (sh1/sh2/sh3), then the offender, then the ordinates (b1/b2/b3).
type coordGen struct {
	stride int
	next   int
	bad    int // index of the offending coordinate, -1 none
	badLen int
	sawBad bool
	prefix string
}

// sh1: -1 = nil slice, otherwise the number of coordinates
func sh1(name string, max int) int {
	n := Count(name, 0, max)
	if n == 0 && sym.Flip(name+".nil") {
		return -1
	}
	return n
}

func sh2(name string, maxParts, max int) []int {
	n := Count(name, 0, maxParts)
	if n == 0 && sym.Flip(name+".nil") {
		return nil
	}
	out := make([]int, n)
	for i := range out {
		out[i] = sh1(sym.N(name, i), max)
	}
	return out
}

func cnt1(n int) int {
	if n < 0 {
		return 0
	}
	return n
}

func cnt2(sh []int) int {
	t := 0
	for _, n := range sh {
		t += cnt1(n)
	}
	return t
}

func newCoordGen(prefix string, stride, present int) *coordGen {
	cg := &coordGen{stride: stride, prefix: prefix}
	if stride == 0 && present > 0 {
		// NoLayout: no coordinate of non-zero length fits; the first one present is the offender
		cg.bad = 0
		cg.badLen = Count(prefix+".badlen", 1, 7)
		return cg
	}
	cg.bad = Count(prefix+".bad", -1, present-1)
	if cg.bad >= 0 {
		cg.badLen = Count(prefix+".badlen", 0, 7)
		sym.Assume(cg.badLen != stride)
	}
	return cg
}

func (cg *coordGen) coord() geom.Coord {
	i := cg.next
	cg.next++
	n := cg.stride
	if i == cg.bad {
		n = cg.badLen
		cg.sawBad = true
	}
	c := make(geom.Coord, n)
	for j := range c {
		c[j] = Ord(sym.N(cg.prefix+".o", i, j))
	}
	return c
}

func (cg *coordGen) b1(n int) []geom.Coord {
	if n < 0 {
		return nil
	}
	out := make([]geom.Coord, n)
	for i := range out {
		out[i] = cg.coord()
	}
	return out
}

func (cg *coordGen) b2(sh []int) [][]geom.Coord {
	if sh == nil {
		return nil
	}
	out := make([][]geom.Coord, len(sh))
	for i := range out {
		out[i] = cg.b1(sh[i])
	}
	return out
}

// checkErr asserts the stride-mismatch contract.
func (cg *coordGen) checkErr(err error, gotNil bool) bool {
	if cg.sawBad {
		sym.Cover("rejected")
		sm, ok := err.(geom.ErrStrideMismatch)
		sym.Assert(ok, "stride mismatch rejected with ErrStrideMismatch")
		if ok {
			sym.Assert(sm.Got == cg.badLen && sm.Want == cg.stride, "ErrStrideMismatch reports Got/Want")
		}
		sym.Assert(gotNil, "no geometry returned on error")
		return false
	}
	sym.Assert(err == nil, "well-formed coordinates accepted")
	return err == nil
}

func tagLayout(lay geom.Layout) {
	if lay == geom.NoLayout {
		sym.Tag("nolayout")
	}
}

// lim: under NoLayout only empty geometries are well formed; the nested arrays are restricted to the
// empty ones plus those holding one (necessarily offending) coordinate per part, which must be
// rejected with a stride mismatch like under any other layout.
func lim(lay geom.Layout, n int) int {
	if lay == geom.NoLayout {
		if n > 1 {
			return 1
		}
		return n
	}
	return n
}

var _ = register("HC01_Point", HC01_Point)

func HC01_Point() {
	lay := AnyLayout("lay", c01Layouts)
	tagLayout(lay)
	cg := newCoordGen("p", lay.Stride(), 1)
	c := cg.coord()
	g, err := geom.NewPoint(lay).SetCoords(c)
	if cg.checkErr(err, g == nil) {
		sym.Assert(WellFormed(g, 0), "well formed")
		sym.Assert(SameCoord(g.Coords(), c), "Coords() returns the input bit for bit")
		sym.Assert(SameFlat(g.FlatCoords(), c), "flat coords are the input")
		sym.Cover("accepted")
	}
}

var _ = register("HC01_LineString", HC01_LineString)

func HC01_LineString() {
	lay := AnyLayout("lay", c01Layouts)
	tagLayout(lay)
	N := sym.Pick(4, 6)
	sym.Bound("coords", N)
	shape := sh1("n", lim(lay, N))
	cg := newCoordGen("p", lay.Stride(), cnt1(shape))
	cs := cg.b1(shape)
	ring := sym.Flip("ring")
	var g geom.T
	var err error
	var isNil bool
	var got []geom.Coord
	if ring {
		r, e := geom.NewLinearRing(lay).SetCoords(cs)
		g, err, isNil = r, e, r == nil
		if e == nil {
			sym.Assert(r.NumCoords() == len(cs), "NumCoords")
			got = r.Coords()
		}
	} else {
		l, e := geom.NewLineString(lay).SetCoords(cs)
		g, err, isNil = l, e, l == nil
		if e == nil {
			sym.Assert(l.NumCoords() == len(cs), "NumCoords")
			got = l.Coords()
			for i := range cs {
				sym.Assert(SameCoord(l.Coord(i), cs[i]), "Coord(i)")
			}
		}
	}
	if cg.checkErr(err, isNil) {
		sym.Assert(WellFormed(g, 1), "well formed")
		sym.Assert(SameCoords1(got, cs), "Coords() returns the input bit for bit")
		sym.Cover("accepted")
	}
}

var _ = register("HC01_Polygon", HC01_Polygon)

func HC01_Polygon() {
	lay := AnyLayout("lay", c01Layouts)
	tagLayout(lay)
	R, N := sym.Pick(2, 3), sym.Pick(2, 3)
	sym.Bound("parts", R)
	sym.Bound("coords", N)
	shape := sh2("r", lim(lay, R), N)
	cg := newCoordGen("p", lay.Stride(), cnt2(shape))
	cs := cg.b2(shape)
	var g geom.T
	var err error
	var isNil bool
	var got [][]geom.Coord
	if sym.Flip("mls") {
		m, e := geom.NewMultiLineString(lay).SetCoords(cs)
		g, err, isNil = m, e, m == nil
		if e == nil {
			got = m.Coords()
			sym.Assert(m.NumLineStrings() == len(cs), "NumLineStrings")
		}
	} else {
		p, e := geom.NewPolygon(lay).SetCoords(cs)
		g, err, isNil = p, e, p == nil
		if e == nil {
			got = p.Coords()
			sym.Assert(p.NumLinearRings() == len(cs), "NumLinearRings")
		}
	}
	if cg.checkErr(err, isNil) {
		sym.Assert(WellFormed(g, 2), "well formed")
		sym.Assert(SameCoords2(got, cs), "Coords() returns the input bit for bit")
		sym.Cover("accepted")
	}
}

var _ = register("HC01_MultiPoint", HC01_MultiPoint)

func HC01_MultiPoint() {
	lay := AnyLayout("lay", c01Layouts)
	tagLayout(lay)
	N := sym.Pick(4, 5)
	sym.Bound("points", N)
	n := Count("n", 0, lim(lay, N))
	isNil := make([]bool, n)
	present := 0
	for i := range isNil {
		isNil[i] = sym.Flip(sym.N("nilmember", i))
		if !isNil[i] {
			present++
		}
	}
	cg := newCoordGen("p", lay.Stride(), present)
	cs := make([]geom.Coord, n)
	for i := range cs {
		if isNil[i] {
			cs[i] = nil // empty point member
			sym.Tag("nil-member")
		} else {
			cs[i] = cg.coord()
		}
	}
	g, err := geom.NewMultiPoint(lay).SetCoords(cs)
	if cg.checkErr(err, g == nil) {
		sym.Assert(WellFormed(g, 2), "well formed")
		sym.Assert(g.NumPoints() == n && g.NumCoords() == n, "NumPoints")
		got := g.Coords()
		sym.Assert(len(got) == n, "Coords() length")
		for i := range cs {
			if i < len(got) {
				sym.Assert((cs[i] == nil) == (got[i] == nil), "nil members preserved in position")
				sym.Assert(SameCoord(got[i], cs[i]), "Coords() returns the input bit for bit")
				sym.Assert(SameCoord(g.Coord(i), cs[i]), "Coord(i)")
			}
		}
		sym.Cover("accepted")
	}
}

var _ = register("HC01_MultiPolygon", HC01_MultiPolygon)

func HC01_MultiPolygon() {
	lay := AnyLayout("lay", c01Layouts)
	tagLayout(lay)
	P, R, N := sym.Pick(2, 3), 2, sym.Pick(1, 2)
	if sym.Flip("wide") { // second shape family: more polygons (empty member in the middle), fewer rings
		P, R, N = 3, 1, 1
	}
	sym.Bound("polygons", 3)
	sym.Bound("rings", R)
	sym.Bound("coords", N)
	np := Count("m", 0, lim(lay, P))
	shapes := make([][]int, np)
	present := 0
	for i := range shapes {
		shapes[i] = sh2(sym.N("m", i), R, N)
		present += cnt2(shapes[i])
	}
	cg := newCoordGen("p", lay.Stride(), present)
	cs := make([][][]geom.Coord, np)
	for i := range cs {
		cs[i] = cg.b2(shapes[i])
	}
	g, err := geom.NewMultiPolygon(lay).SetCoords(cs)
	if cg.checkErr(err, g == nil) {
		sym.Assert(WellFormed(g, 3), "well formed")
		sym.Assert(g.NumPolygons() == len(cs), "NumPolygons")
		sym.Assert(SameCoords3(g.Coords(), cs), "Coords() returns the input bit for bit")
		sym.Cover("accepted")
	}
}

var _ = register("HC01_Flat", HC01_Flat)

// HC01_Flat: New*Flat constructors + accessors on arbitrary well-formed flat state, Reserve.
func HC01_Flat() {
	lay := AnyLayout("lay", Layouts)
	g := MultiPolygonWF("g", lay, 2, 2, 2)
	sym.Assert(WellFormed(g, 3), "generator invariant")
	before := SnapOf(g)
	cs := g.Coords()
	// independent inflate: walk shapes
	sym.Assert(len(cs) == len(g.Endss()), "Coords() has one entry per polygon")
	off := 0
	stride := lay.Stride()
	for i, ends := range g.Endss() {
		sym.Assert(len(cs[i]) == len(ends), "one entry per ring")
		for j, e := range ends {
			n := (e - off) / stride
			sym.Assert(len(cs[i][j]) == n, "ring length")
			for k := 0; k < n && k < len(cs[i][j]); k++ {
				sym.Assert(SameFlat(cs[i][j][k], g.FlatCoords()[off+k*stride:off+(k+1)*stride]), "coordinate bits")
			}
			off = e
		}
	}
	g.Reserve(sym.Int("reserve", 0, 9))
	sym.Assert(SameSnap(SnapOf(g), before), "Reserve changes nothing observable")
	sym.Cover("end")
}
