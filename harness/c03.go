package h

import (
	"encoding/binary"
	"errors"
	"io"
	"math"

	geom "github.com/twpayne/go-geom"
	"github.com/twpayne/go-geom/encoding/ewkb"
	"github.com/twpayne/go-geom/encoding/ewkbhex"
	"github.com/twpayne/go-geom/encoding/wkb"
	"github.com/twpayne/go-geom/encoding/wkbcommon"
	"github.com/twpayne/go-geom/encoding/wkbhex"
	"github.com/twpayne/go-geom/internal/zzverif/sym"
)

// C03: WKB / EWKB emit the standard bytes and decode back.
//
// The reference encoder below is written from the format documents only (ISO 13249-3 WKB type
// codes = base + 1000*dimension code; PostGIS ZMSgeoms.txt: Z/M/SRID flag bits, SRID word after the
// type word); it does its own byte extraction and shares no code with wkbcommon.

var memberLayouts []geom.Layout

var Layouts4 = []geom.Layout{geom.XY, geom.XYZ, geom.XYM, geom.XYZM}

// ---- symbolic geometry trees ----

// leafGeom returns an arbitrary well-formed non-collection geometry. small selects the member bound.
func leafGeom(prefix string, t int, lay geom.Layout, small bool, allowEmptyPoint bool) geom.T {
	parts, coords := 2, 2
	if small {
		parts, coords = 1, 1
	}
	if sym.Thorough() && !small {
		coords = 3
	}
	switch t {
	case 1:
		if allowEmptyPoint {
			return PointWF(prefix, lay)
		}
		return geom.NewPointFlat(lay, Flat(prefix+".c", lay.Stride()))
	case 2:
		return LineStringWF(prefix, lay, coords)
	case 3:
		return PolygonWF(prefix, lay, parts, coords)
	case 4:
		if allowEmptyPoint {
			return MultiPointWF(prefix, lay, parts)
		}
		n := Count(prefix+".n", 0, parts)
		return geom.NewMultiPointFlat(lay, Flat(prefix+".c", n*lay.Stride()))
	case 5:
		return MultiLineStringWF(prefix, lay, parts, coords)
	default:
		if small {
			return MultiPolygonWF(prefix, lay, 1, 1, 1)
		}
		return MultiPolygonWF(prefix, lay, 2, sym.Pick(1, 2), sym.Pick(1, 2))
	}
}

// geomTree returns an arbitrary geometry: one of the six basic types or a collection of <=2 members
// (each again a tree, depth-bounded). Collections may mix layouts, may be empty with or without a
// fixed layout, and members may carry their own SRID when sridMembers is set (EWKB).
func geomTree(prefix string, depth int, small, allowEmptyPoint, sridMembers bool) geom.T {
	hi := 7
	if depth == 0 {
		hi = 6
	}
	t := sym.Choose(prefix+".type", 1, hi)
	if t <= 6 {
		ls := Layouts4
		if small && memberLayouts != nil {
			ls = memberLayouts
		}
		lay := AnyLayout(prefix+".lay", ls)
		return leafGeom(prefix, t, lay, small, allowEmptyPoint)
	}
	gc := geom.NewGeometryCollection()
	n := Count(prefix+".members", 0, 2)
	for i := 0; i < n; i++ {
		m := geomTree(sym.N(prefix+".m", i), depth-1, true, allowEmptyPoint, sridMembers)
		if sridMembers && sym.Flip(sym.N(prefix+".msrid?", i)) {
			m = setSRID(m, int(sym.Uint32(sym.N(prefix+".msrid", i))))
		}
		if err := gc.Push(m); err != nil {
			sym.Assert(false, "push into layout-less collection accepted")
		}
	}
	if n == 0 && sym.Flip(prefix+".fixed") {
		lay := AnyLayout(prefix+".gclay", Layouts4)
		if err := gc.SetLayout(lay); err != nil {
			sym.Assert(false, "SetLayout on empty collection accepted")
		}
	}
	return gc
}

// smallGeom: one small leaf, or a collection holding one small leaf (enough to exercise every
// Write/Read call site once; the shape space of the full trees is covered by HC03_WKB/HC03_EWKB).
func smallGeom(prefix string, allowEmptyPoint bool) geom.T {
	t := sym.Choose(prefix+".type", 1, 7)
	lay := AnyLayout(prefix+".lay", Layouts4)
	if t <= 6 {
		return leafGeom(prefix, t, lay, true, allowEmptyPoint)
	}
	gc := geom.NewGeometryCollection()
	if sym.Flip(prefix + ".member") {
		gc.MustPush(leafGeom(prefix+".m", sym.Choose(prefix+".mtype", 1, 3), lay, true, allowEmptyPoint))
	}
	return gc
}

func setSRID(g geom.T, srid int) geom.T {
	switch x := g.(type) {
	case *geom.Point:
		return x.SetSRID(srid)
	case *geom.LineString:
		return x.SetSRID(srid)
	case *geom.Polygon:
		return x.SetSRID(srid)
	case *geom.MultiPoint:
		return x.SetSRID(srid)
	case *geom.MultiLineString:
		return x.SetSRID(srid)
	case *geom.MultiPolygon:
		return x.SetSRID(srid)
	case *geom.GeometryCollection:
		return x.SetSRID(srid)
	}
	return g
}

// ---- independent reference encoder ----

type refEnc struct {
	out   []byte
	ndr   bool
	ewkb  bool
	noEmp bool // strict WKB: an empty point is not encodable
	bad   bool
}

func (e *refEnc) u32(v uint32) {
	if e.ndr {
		e.out = append(e.out, byte(v), byte(v>>8), byte(v>>16), byte(v>>24))
	} else {
		e.out = append(e.out, byte(v>>24), byte(v>>16), byte(v>>8), byte(v))
	}
}

func (e *refEnc) f64(f float64) {
	v := math.Float64bits(f)
	if e.ndr {
		for i := 0; i < 8; i++ {
			e.out = append(e.out, byte(v>>(8*uint(i))))
		}
	} else {
		for i := 7; i >= 0; i-- {
			e.out = append(e.out, byte(v>>(8*uint(i))))
		}
	}
}

func dimFlags(l geom.Layout) (z, m bool) {
	return l == geom.XYZ || l == geom.XYZM, l == geom.XYM || l == geom.XYZM
}

func (e *refEnc) header(base uint32, lay geom.Layout, srid int) {
	if e.ndr {
		e.out = append(e.out, 1)
	} else {
		e.out = append(e.out, 0)
	}
	z, m := dimFlags(lay)
	code := base
	if e.ewkb {
		if z {
			code |= 0x80000000
		}
		if m {
			code |= 0x40000000
		}
		if srid != 0 {
			code |= 0x20000000
		}
		e.u32(code)
		if srid != 0 {
			e.u32(uint32(srid))
		}
		return
	}
	switch {
	case z && m:
		code += 3000
	case m:
		code += 2000
	case z:
		code += 1000
	}
	e.u32(code)
}

func (e *refEnc) coords(flat []float64, from, to, stride int) {
	e.u32(uint32((to - from) / stride))
	for i := from; i < to; i++ {
		e.f64(flat[i])
	}
}

func (e *refEnc) rings(flat []float64, from int, ends []int, stride int) int {
	e.u32(uint32(len(ends)))
	for _, end := range ends {
		e.coords(flat, from, end, stride)
		from = end
	}
	return from
}

// encode appends the reference encoding of g (nested coordinates are read through the flat
// accessors and the ends arrays, i.e. the structure the geometry was BUILT with).
func (e *refEnc) encode(g geom.T, srid int) {
	lay, stride, _ := g.Layout(), g.Stride(), 0
	switch x := g.(type) {
	case *geom.Point:
		e.header(1, lay, srid)
		flat := x.FlatCoords()
		if len(flat) == 0 {
			if e.noEmp {
				e.bad = true
				return
			}
			for i := 0; i < stride; i++ {
				e.f64(math.Float64frombits(0x7FF8000000000000))
			}
			return
		}
		for _, f := range flat {
			e.f64(f)
		}
	case *geom.LineString:
		e.header(2, lay, srid)
		e.coords(x.FlatCoords(), 0, len(x.FlatCoords()), stride)
	case *geom.Polygon:
		e.header(3, lay, srid)
		e.rings(x.FlatCoords(), 0, x.Ends(), stride)
	case *geom.MultiPoint:
		e.header(4, lay, srid)
		ends := x.Ends()
		e.u32(uint32(len(ends)))
		from := 0
		flat := x.FlatCoords()
		for _, end := range ends {
			e.header(1, lay, 0)
			if end == from {
				if e.noEmp {
					e.bad = true
					return
				}
				for i := 0; i < stride; i++ {
					e.f64(math.Float64frombits(0x7FF8000000000000))
				}
			}
			for i := from; i < end; i++ {
				e.f64(flat[i])
			}
			from = end
		}
	case *geom.MultiLineString:
		e.header(5, lay, srid)
		ends := x.Ends()
		e.u32(uint32(len(ends)))
		from := 0
		for _, end := range ends {
			e.header(2, lay, 0)
			e.coords(x.FlatCoords(), from, end, stride)
			from = end
		}
	case *geom.MultiPolygon:
		e.header(6, lay, srid)
		endss := x.Endss()
		e.u32(uint32(len(endss)))
		from := 0
		for _, ends := range endss {
			e.header(3, lay, 0)
			from = e.rings(x.FlatCoords(), from, ends, stride)
		}
	case *geom.GeometryCollection:
		e.header(7, lay, srid)
		e.u32(uint32(x.NumGeoms()))
		for _, m := range x.Geoms() {
			e.encode(m, m.SRID())
			if e.bad {
				return
			}
		}
	}
}

func refEncode(g geom.T, ndr, isEWKB, strictEmptyPoint bool) ([]byte, bool) {
	e := &refEnc{ndr: ndr, ewkb: isEWKB, noEmp: strictEmptyPoint}
	e.encode(g, g.SRID())
	return e.out, !e.bad
}

func sameBytes(a, b []byte) bool {
	if len(a) != len(b) {
		return false
	}
	cs := make([]bool, len(a))
	for i := range a {
		cs[i] = a[i] == b[i]
	}
	return sym.And(cs...)
}

// hasCanonicalNaNPoint: some point (or multipoint member) has every ordinate equal to the canonical
// quiet NaN - by the format that IS the encoding of the empty point (carve-out of the property).
func allCanonicalNaN(flat []float64, from, to int) bool {
	cs := make([]bool, 0, to-from)
	for i := from; i < to; i++ {
		cs = append(cs, math.Float64bits(flat[i]) == 0x7FF8000000000000)
	}
	return sym.And(cs...)
}

func assumeNoNaNPoint(g geom.T) {
	switch x := g.(type) {
	case *geom.Point:
		if len(x.FlatCoords()) > 0 {
			sym.Assume(!allCanonicalNaN(x.FlatCoords(), 0, len(x.FlatCoords())))
		}
	case *geom.MultiPoint:
		from := 0
		for _, end := range x.Ends() {
			if end > from {
				sym.Assume(!allCanonicalNaN(x.FlatCoords(), from, end))
			}
			from = end
		}
	case *geom.GeometryCollection:
		for _, m := range x.Geoms() {
			assumeNoNaNPoint(m)
		}
	}
}

// sameTree: equality of the decoded geometry with the original as the property states it: type,
// layout, structure, every bit, SRID. Carve-out: an empty collection without a fixed layout comes
// back with the layout of its type code (so layouts of collections are compared only when the
// original's is defined; members are compared recursively either way).
func sameTree(a, b geom.T, compareSRID bool) bool {
	if x, ok := a.(*geom.GeometryCollection); ok {
		y, ok := b.(*geom.GeometryCollection)
		if !ok || x.NumGeoms() != y.NumGeoms() {
			return false
		}
		if x.Layout() != geom.NoLayout && x.Layout() != y.Layout() {
			return false
		}
		cs := []bool{true}
		if compareSRID {
			cs = append(cs, sym.EqInt(x.SRID(), y.SRID()))
		}
		for i := 0; i < x.NumGeoms(); i++ {
			cs = append(cs, sameTree(x.Geom(i), y.Geom(i), compareSRID))
		}
		return sym.And(cs...)
	}
	if !sameDynType(a, b) {
		return false
	}
	sa, sb := SnapOf(a), SnapOf(b)
	if compareSRID {
		return sym.And(SameSnap(sa, sb), sym.EqInt(sa.SRID, sb.SRID))
	}
	return SameSnap(sa, sb)
}

func sameDynType(a, b geom.T) bool {
	switch a.(type) {
	case *geom.Point:
		_, ok := b.(*geom.Point)
		return ok
	case *geom.LineString:
		_, ok := b.(*geom.LineString)
		return ok
	case *geom.Polygon:
		_, ok := b.(*geom.Polygon)
		return ok
	case *geom.MultiPoint:
		_, ok := b.(*geom.MultiPoint)
		return ok
	case *geom.MultiLineString:
		_, ok := b.(*geom.MultiLineString)
		return ok
	case *geom.MultiPolygon:
		_, ok := b.(*geom.MultiPolygon)
		return ok
	}
	return false
}

// multipoint ends: a MultiPoint built from flat coords without explicit ends has one end per point;
// the snapshot comparison uses Ends() of both sides, which is what the accessors expose.

var _ = register("HC03_WKB", HC03_WKB)

// HC03_WKB: wkb.Marshal == reference bytes; wkb.Unmarshal(bytes) == original; both byte orders;
// strict mode (empty point => error) and NaN mode.
func HC03_WKB() {
	nanMode := sym.Flip("nanmode")
	ndr := sym.Flip("ndr")
	depth := 1 // depth 2 multiplies the path count by ~10^4: not run, not claimed
	sym.Bound("collection depth", depth)
	g := geomTree("g", depth, false, true, false)
	assumeNoNaNPoint(g)
	sym.Freeze(g)
	var opts []wkbcommon.WKBOption
	if nanMode {
		opts = append(opts, wkbcommon.WKBOptionEmptyPointHandling(wkbcommon.EmptyPointHandlingNaN))
	}
	var bo binary.ByteOrder = wkb.XDR
	if ndr {
		bo = wkb.NDR
	}
	want, encodable := refEncode(g, ndr, false, !nanMode)
	got, err := wkb.Marshal(g, bo, opts...)
	if !encodable {
		sym.Assert(err != nil, "empty point in strict WKB mode is refused")
		sym.Cover("refused")
		return
	}
	sym.Assert(err == nil, "encodable geometry is encoded")
	if err != nil {
		return
	}
	sym.Assert(sameBytes(got, want), "wkb.Marshal emits exactly the ISO WKB bytes of the reference encoder")
	back, err := wkb.Unmarshal(got, opts...)
	sym.Assert(err == nil, "emitted WKB decodes")
	if err != nil {
		return
	}
	sym.Assert(WellFormedT(back), "decoded geometry well formed")
	sym.Assert(sameTree(g, back, false), "wkb.Unmarshal(wkb.Marshal(g)) equals g")
	sym.Cover("roundtrip")
}

var _ = register("HC03_EWKB", HC03_EWKB)

// HC03_EWKB: same for EWKB incl. SRID in [0,2^32) on the top level and on collection members.
func HC03_EWKB() {
	ndr := sym.Flip("ndr")
	depth := 1
	sym.Bound("collection depth", depth)
	if !sym.Thorough() {
		memberLayouts = []geom.Layout{geom.XY, geom.XYM} // quick: the full 4x4 layout mix of members is in HC03_WKB
	}
	g := geomTree("g", depth, false, true, false) // member SRIDs: see HC03_MemberSRID
	assumeNoNaNPoint(g)
	g = setSRID(g, int(sym.Uint32("srid"))) // 0 = no SRID word; the encoder's own test splits the cases
	sym.Freeze(g)
	var bo binary.ByteOrder = ewkb.XDR
	if ndr {
		bo = ewkb.NDR
	}
	want, _ := refEncode(g, ndr, true, false)
	got, err := ewkb.Marshal(g, bo)
	sym.Assert(err == nil, "every XY..XYZM geometry is EWKB-encodable")
	if err != nil {
		return
	}
	sym.Assert(sameBytes(got, want), "ewkb.Marshal emits exactly the PostGIS EWKB bytes of the reference encoder")
	back, err := ewkb.Unmarshal(got)
	sym.Assert(err == nil, "emitted EWKB decodes")
	if err != nil {
		return
	}
	sym.Assert(WellFormedT(back), "decoded geometry well formed")
	sym.Assert(sameTree(g, back, true), "ewkb.Unmarshal(ewkb.Marshal(g)) equals g incl. SRID")
	sym.Cover("roundtrip")
}

var _ = register("HC03_Unsupported", HC03_Unsupported)

// HC03_Unsupported: layouts beyond XYZM and NoLayout non-collections are rejected with
// ErrUnsupportedLayout by both encoders; an unknown byte order is refused.
func HC03_Unsupported() {
	lay := AnyLayout("lay", []geom.Layout{geom.NoLayout, geom.Layout(5), geom.Layout(6)})
	t := sym.Choose("type", 1, 6)
	var g geom.T
	switch t {
	case 1:
		g = geom.NewPointEmpty(lay)
	case 2:
		g = geom.NewLineString(lay)
	case 3:
		g = geom.NewPolygon(lay)
	case 4:
		g = geom.NewMultiPoint(lay)
	case 5:
		g = geom.NewMultiLineString(lay)
	default:
		g = geom.NewMultiPolygon(lay)
	}
	if lay != geom.NoLayout && t == 2 && sym.Flip("nonempty") {
		g = geom.NewLineStringFlat(lay, Flat("c", lay.Stride()))
	}
	ndr := sym.Flip("ndr")
	var bo binary.ByteOrder = wkb.XDR
	if ndr {
		bo = wkb.NDR
	}
	_, err := wkb.Marshal(g, bo)
	ul, ok := err.(geom.ErrUnsupportedLayout)
	sym.Assert(ok && geom.Layout(ul) == lay, "wkb: unsupported layout reported")
	_, err = ewkb.Marshal(g, bo)
	ul, ok = err.(geom.ErrUnsupportedLayout)
	sym.Assert(ok && geom.Layout(ul) == lay, "ewkb: unsupported layout reported")
	sym.Cover("end")
}

// ---- streams ----

var errSink = errors.New("sink failed")

// failWriter accepts `left` bytes in total and then fails (short write + error).
type failWriter struct {
	left int
	got  []byte
}

func (w *failWriter) Write(p []byte) (int, error) {
	if len(p) <= w.left {
		w.got = append(w.got, p...)
		w.left -= len(p)
		return len(p), nil
	}
	n := w.left
	w.got = append(w.got, p[:n]...)
	w.left = 0
	return n, errSink
}

var _ = register("HC03_WriteFails", HC03_WriteFails)

// HC03_WriteFails: Write emits exactly the Marshal bytes; if the writer starts failing after k bytes
// (every k), Write reports that error and nothing but a prefix of the encoding was written.
func HC03_WriteFails() {
	isEWKB := sym.Flip("ewkb")
	ndr := sym.Flip("ndr")
	g := smallGeom("g", false)
	if isEWKB {
		g = setSRID(g, int(sym.Uint32("srid")))
	}
	want, _ := refEncode(g, ndr, isEWKB, true)
	k := sym.Int("k", 0, len(want)+1)
	w := &failWriter{left: k}
	var bo binary.ByteOrder = wkb.XDR
	if ndr {
		bo = wkb.NDR
	}
	var err error
	if isEWKB {
		err = ewkb.Write(w, bo, g)
	} else {
		err = wkb.Write(w, bo, g)
	}
	if k >= len(want) {
		sym.Assert(err == nil, "writer with enough room: no error")
		sym.Assert(sameBytes(w.got, want), "Write emits exactly the encoding")
		sym.Cover("complete")
	} else {
		sym.Assert(err == errSink, "the writer's error is reported")
		sym.Assert(len(w.got) <= len(want) && sameBytes(w.got, want[:len(w.got)]), "only a prefix of the encoding was written")
		sym.Cover("failed")
	}
}

// chunkReader hands out the data in pieces whose sizes are chosen symbolically per call.
type chunkReader struct {
	data  []byte
	pos   int
	calls int
	tail  int // 0 undecided, 1 byte-at-a-time, 2 everything requested
}

func (r *chunkReader) Read(p []byte) (int, error) {
	if len(p) == 0 {
		return 0, nil
	}
	if r.pos >= len(r.data) {
		return 0, io.EOF
	}
	n := len(p)
	if rem := len(r.data) - r.pos; rem < n {
		n = rem
	}
	if r.calls < 5 {
		switch sym.Choose(sym.N("chunk", r.calls), 0, 2) {
		case 0:
			n = 1
		case 1:
			if n > 2 {
				n = 2
			}
		}
	} else {
		if r.tail == 0 {
			r.tail = 1 + sym.Choose("tail", 0, 1)
		}
		if r.tail == 1 {
			n = 1
		}
	}
	r.calls++
	copy(p, r.data[r.pos:r.pos+n])
	r.pos += n
	return n, nil
}

var _ = register("HC03_ReadSplit", HC03_ReadSplit)

// HC03_ReadSplit: Read consumes exactly one geometry however the reader splits the bytes; two
// concatenated geometries decode one after the other and the reader ends exactly at the end.
func HC03_ReadSplit() {
	isEWKB := sym.Flip("ewkb")
	ndr := sym.Flip("ndr")
	lay := AnyLayout("lay", []geom.Layout{geom.XY, geom.XYZM})
	var g1 geom.T
	if sym.Flip("g1point") {
		g1 = geom.NewPointFlat(lay, Flat("p", lay.Stride()))
	} else {
		g1 = LineStringWF("l", lay, 1)
	}
	assumeNoNaNPoint(g1)
	g2 := geom.NewPointFlat(geom.XY, Flat("q", 2))
	assumeNoNaNPoint(g2)
	b1, _ := refEncode(g1, ndr, isEWKB, true)
	b2, _ := refEncode(g2, !ndr, isEWKB, true)
	data := append(append([]byte{}, b1...), b2...)
	r := &chunkReader{data: data}
	var a, b geom.T
	var err1, err2 error
	if isEWKB {
		a, err1 = ewkb.Read(r)
	} else {
		a, err1 = wkb.Read(r)
	}
	sym.Assert(err1 == nil, "first geometry read")
	if err1 != nil {
		return
	}
	sym.Assert(r.pos == len(b1), "Read consumed exactly the bytes of one geometry")
	sym.Assert(sameTree(g1, a, true), "first geometry equals the first encoded one")
	if isEWKB {
		b, err2 = ewkb.Read(r)
	} else {
		b, err2 = wkb.Read(r)
	}
	sym.Assert(err2 == nil, "second geometry read")
	if err2 != nil {
		return
	}
	sym.Assert(r.pos == len(data), "reader positioned exactly at the end")
	sym.Assert(sameTree(g2, b, true), "second geometry equals the second encoded one")
	sym.Cover("end")
}

// ---- hex and database/sql wrappers ----

const hexDigits = "0123456789abcdef"

func refHex(b []byte) string {
	out := make([]byte, 0, 2*len(b))
	for _, x := range b {
		out = append(out, hexNibble(x>>4), hexNibble(x&15))
	}
	return string(out)
}

// hexNibble without a table lookup on a symbolic index: arithmetic select.
func hexNibble(n byte) byte {
	return byte(sym.IteInt(n < 10, int('0'+n), int('a'+n-10)))
}

var _ = register("HC03_Hex", HC03_Hex)

func HC03_Hex() {
	isEWKB := sym.Flip("ewkb")
	ndr := sym.Flip("ndr")
	// ordinates are concrete patterns here (3 families), SRID one of 4 concrete values: a symbolic byte through
	// encoding/hex's 256-entry reverse table did not come back from the solver within the budget. The subject is the
	// wrapper (Encode = hex o Marshal, Decode = Unmarshal o unhex); encoding/hex itself is std.
	concreteOrds = 1 + sym.Choose("ordinate pattern", 0, 2)
	g := smallGeom("g", false)
	if isEWKB {
		g = setSRID(g, []int{0, 4326, 0xFFFFFFFF, 0x01020304}[sym.Choose("srid", 0, 3)])
	}
	want, _ := refEncode(g, ndr, isEWKB, true)
	var bo binary.ByteOrder = wkb.XDR
	if ndr {
		bo = wkb.NDR
	}
	var s string
	var err error
	if isEWKB {
		s, err = ewkbhex.Encode(g, bo)
	} else {
		s, err = wkbhex.Encode(g, bo)
	}
	sym.Assert(err == nil, "hex encode succeeds")
	if err != nil {
		return
	}
	sym.Assert(s == refHex(want), "hex encoding is the lower-case hex of the binary encoding")
	var back geom.T
	if isEWKB {
		back, err = ewkbhex.Decode(s)
	} else {
		back, err = wkbhex.Decode(s)
	}
	sym.Assert(err == nil, "hex decodes")
	if err != nil {
		return
	}
	sym.Assert(sameTree(g, back, isEWKB), "hex round trip")
	sym.Cover("end")
}

var _ = register("HC03_SQL", HC03_SQL)

// HC03_SQL: Value() of every typed wrapper is the NDR encoding; Scan of the encoding of type t into
// the wrapper of type u succeeds iff t == u (Geom accepts all) and yields the geometry; a non-[]byte
// source is an error.
func HC03_SQL() {
	isEWKB := sym.Flip("ewkb")
	t := sym.Choose("type", 1, 7)
	u := sym.Choose("wrapper", 0, 7)
	if isEWKB && u == 0 {
		u = t // ewkb has no untyped Geom wrapper
	}
	lay := AnyLayout("lay", Layouts4)
	var g geom.T
	if t <= 6 {
		g = leafGeom("g", t, lay, true, false)
	} else {
		g = geom.NewGeometryCollection().MustPush(geom.NewPointFlat(lay, Flat("g.c", lay.Stride())))
	}
	assumeNoNaNPoint(g)
	if isEWKB {
		g = setSRID(g, int(sym.Uint32("srid")))
	}
	want, _ := refEncode(g, true, isEWKB, true)
	// Value of the matching wrapper
	var val interface{}
	var err error
	if isEWKB {
		val, err = ewkbValue(g, t)
	} else {
		val, err = wkbValue(g, t)
	}
	sym.Assert(err == nil, "Value succeeds")
	bs, ok := val.([]byte)
	sym.Assert(ok, "Value is a []byte")
	if !ok {
		return
	}
	sym.Assert(sameBytes(bs, want), "Value() is the little-endian encoding")
	// Scan into wrapper u
	var got geom.T
	if isEWKB {
		got, err = ewkbScan(u, want)
	} else {
		got, err = wkbScan(u, want)
	}
	if u == 0 || u == t {
		sym.Assert(err == nil, "Scan of the matching type succeeds")
		if err == nil {
			sym.Assert(sameTree(g, got, isEWKB), "Scan returns the geometry")
		}
		sym.Cover("scanned")
	} else {
		sym.Assert(err != nil, "Scan into a wrapper of the wrong geometry type reports an error")
		sym.Cover("wrong-type")
	}
	// non-[]byte source
	if isEWKB {
		_, err = ewkbScanAny(u, "not bytes")
	} else {
		_, err = wkbScanAny(u, "not bytes")
	}
	sym.Assert(err != nil, "Scan of a non-[]byte source reports an error")
}

func wkbValue(g geom.T, t int) (interface{}, error) {
	switch x := g.(type) {
	case *geom.Point:
		return (&wkb.Point{Point: x}).Value()
	case *geom.LineString:
		return (&wkb.LineString{LineString: x}).Value()
	case *geom.Polygon:
		return (&wkb.Polygon{Polygon: x}).Value()
	case *geom.MultiPoint:
		return (&wkb.MultiPoint{MultiPoint: x}).Value()
	case *geom.MultiLineString:
		return (&wkb.MultiLineString{MultiLineString: x}).Value()
	case *geom.MultiPolygon:
		return (&wkb.MultiPolygon{MultiPolygon: x}).Value()
	case *geom.GeometryCollection:
		return (&wkb.GeometryCollection{GeometryCollection: x}).Value()
	}
	return nil, nil
}

func ewkbValue(g geom.T, t int) (interface{}, error) {
	switch x := g.(type) {
	case *geom.Point:
		return (&ewkb.Point{Point: x}).Value()
	case *geom.LineString:
		return (&ewkb.LineString{LineString: x}).Value()
	case *geom.Polygon:
		return (&ewkb.Polygon{Polygon: x}).Value()
	case *geom.MultiPoint:
		return (&ewkb.MultiPoint{MultiPoint: x}).Value()
	case *geom.MultiLineString:
		return (&ewkb.MultiLineString{MultiLineString: x}).Value()
	case *geom.MultiPolygon:
		return (&ewkb.MultiPolygon{MultiPolygon: x}).Value()
	case *geom.GeometryCollection:
		return (&ewkb.GeometryCollection{GeometryCollection: x}).Value()
	}
	return nil, nil
}

func wkbScan(u int, b []byte) (geom.T, error) { return wkbScanAny(u, b) }

func wkbScanAny(u int, src interface{}) (geom.T, error) {
	switch u {
	case 0:
		w := &wkb.Geom{}
		err := w.Scan(src)
		return w.T, err
	case 1:
		w := &wkb.Point{}
		err := w.Scan(src)
		return retT(w.Point, w.Point == nil, err)
	case 2:
		w := &wkb.LineString{}
		err := w.Scan(src)
		return retT(w.LineString, w.LineString == nil, err)
	case 3:
		w := &wkb.Polygon{}
		err := w.Scan(src)
		return retT(w.Polygon, w.Polygon == nil, err)
	case 4:
		w := &wkb.MultiPoint{}
		err := w.Scan(src)
		return retT(w.MultiPoint, w.MultiPoint == nil, err)
	case 5:
		w := &wkb.MultiLineString{}
		err := w.Scan(src)
		return retT(w.MultiLineString, w.MultiLineString == nil, err)
	case 6:
		w := &wkb.MultiPolygon{}
		err := w.Scan(src)
		return retT(w.MultiPolygon, w.MultiPolygon == nil, err)
	default:
		w := &wkb.GeometryCollection{}
		err := w.Scan(src)
		return retT(w.GeometryCollection, w.GeometryCollection == nil, err)
	}
}

func ewkbScan(u int, b []byte) (geom.T, error) { return ewkbScanAny(u, b) }

func ewkbScanAny(u int, src interface{}) (geom.T, error) {
	switch u {
	case 0:
		return nil, nil
	case 1:
		w := &ewkb.Point{}
		err := w.Scan(src)
		return retT(w.Point, w.Point == nil, err)
	case 2:
		w := &ewkb.LineString{}
		err := w.Scan(src)
		return retT(w.LineString, w.LineString == nil, err)
	case 3:
		w := &ewkb.Polygon{}
		err := w.Scan(src)
		return retT(w.Polygon, w.Polygon == nil, err)
	case 4:
		w := &ewkb.MultiPoint{}
		err := w.Scan(src)
		return retT(w.MultiPoint, w.MultiPoint == nil, err)
	case 5:
		w := &ewkb.MultiLineString{}
		err := w.Scan(src)
		return retT(w.MultiLineString, w.MultiLineString == nil, err)
	case 6:
		w := &ewkb.MultiPolygon{}
		err := w.Scan(src)
		return retT(w.MultiPolygon, w.MultiPolygon == nil, err)
	default:
		w := &ewkb.GeometryCollection{}
		err := w.Scan(src)
		return retT(w.GeometryCollection, w.GeometryCollection == nil, err)
	}
}

func retT(g geom.T, isNil bool, err error) (geom.T, error) {
	if isNil {
		return nil, err
	}
	return g, err
}

var _ = register("HC03_MemberSRID", HC03_MemberSRID)

// HC03_MemberSRID: collection members carrying their own SRID (small members) round-trip too.
func HC03_MemberSRID() {
	ndr := sym.Flip("ndr")
	memberLayouts = []geom.Layout{geom.XY, geom.XYZM}
	gc := geom.NewGeometryCollection()
	n := Count("members", 1, 2)
	for i := 0; i < n; i++ {
		m := geomTree(sym.N("m", i), 0, true, true, false)
		if sym.Flip(sym.N("msrid?", i)) {
			m = setSRID(m, int(sym.Uint32(sym.N("msrid", i))))
		}
		gc.MustPush(m)
	}
	var g geom.T = gc
	assumeNoNaNPoint(g)
	g = setSRID(g, int(sym.Uint32("srid")))
	var bo binary.ByteOrder = ewkb.XDR
	if ndr {
		bo = ewkb.NDR
	}
	want, _ := refEncode(g, ndr, true, false)
	got, err := ewkb.Marshal(g, bo)
	sym.Assert(err == nil, "encodable")
	if err != nil {
		return
	}
	sym.Assert(sameBytes(got, want), "ewkb.Marshal emits the member SRID words of the reference encoder")
	back, err := ewkb.Unmarshal(got)
	sym.Assert(err == nil, "emitted EWKB decodes")
	if err != nil {
		return
	}
	sym.Assert(sameTree(g, back, true), "members keep their own SRID across the round trip")
	sym.Cover("end")
}
