package h

import (
	geom "github.com/twpayne/go-geom"
	"github.com/twpayne/go-geom/internal/zzverif/sym"
)

// C16: Clone returns an equal geometry that shares no storage.

func checkClone(orig, clone geom.T, level int) {
	so, sc := SnapOf(orig), SnapOf(clone)
	sym.Assert(SameSnap(so, sc) && so.SRID == sc.SRID, "clone equal in layout, stride, SRID, structure and every bit")
	sym.Assert((orig.FlatCoords() == nil) == (clone.FlatCoords() == nil), "nil-ness of flat coords preserved")
	sym.Assert((orig.Ends() == nil) == (clone.Ends() == nil), "nil-ness of ends preserved")
	sym.Assert((orig.Endss() == nil) == (clone.Endss() == nil), "nil-ness of endss preserved")
	if orig.Endss() != nil && clone.Endss() != nil && len(orig.Endss()) == len(clone.Endss()) {
		for i := range orig.Endss() {
			sym.Assert((orig.Endss()[i] == nil) == (clone.Endss()[i] == nil), "nil-ness of endss rows preserved")
		}
	}
	sym.Assert(sym.NoAlias(orig.FlatCoords(), clone.FlatCoords()), "flat coords not shared")
	sym.Assert(sym.NoAlias(orig.Ends(), clone.Ends()), "ends not shared")
	sym.Assert(sym.NoAlias(orig.Endss(), clone.Endss()), "endss (outer and every row) not shared")
}

// mutate writes to every mutable part of g.
func mutate(g geom.T, tag string) {
	for i := range g.FlatCoords() {
		g.FlatCoords()[i] = Ord(sym.N(tag+".w", i))
	}
	for i := range g.Ends() {
		g.Ends()[i] = -7
	}
	for _, row := range g.Endss() {
		for j := range row {
			row[j] = -9
		}
	}
}

var _ = register("HC16_Clone", HC16_Clone)

func HC16_Clone() {
	lay := AnyLayout("lay", Layouts)
	srid := sym.Int("srid", 0, 1<<32-1)
	var orig, clone geom.T
	level := 0
	switch Count("type", 0, 6) {
	case 0:
		g := PointWF("g", lay).SetSRID(srid)
		orig, clone = g, g.Clone()
	case 1:
		g := LineStringWF("g", lay, 3).SetSRID(srid)
		orig, clone, level = g, g.Clone(), 1
	case 2:
		g := LinearRingWF("g", lay, 3).SetSRID(srid)
		orig, clone, level = g, g.Clone(), 1
	case 3:
		g := PolygonWF("g", lay, 2, 2).SetSRID(srid)
		orig, clone, level = g, g.Clone(), 2
	case 4:
		g := MultiPointWF("g", lay, 3).SetSRID(srid)
		orig, clone, level = g, g.Clone(), 2
	case 5:
		g := MultiLineStringWF("g", lay, 2, 2).SetSRID(srid)
		orig, clone, level = g, g.Clone(), 2
	default:
		g := MultiPolygonWF("g", lay, sym.Pick(2, 3), 2, 2).SetSRID(srid)
		orig, clone, level = g, g.Clone(), 3
	}
	checkClone(orig, clone, level)
	// mutation of one side is invisible through the other
	so := SnapOf(orig)
	sc := SnapOf(clone)
	if sym.Flip("mutate-clone") {
		mutate(clone, "m")
		sym.Assert(SameSnap(SnapOf(orig), so), "writes through the clone are invisible in the original")
	} else {
		mutate(orig, "m")
		sym.Assert(SameSnap(SnapOf(clone), sc), "writes through the original are invisible in the clone")
	}
	sym.Cover("end")
}

var _ = register("HC16_ClonePush", HC16_ClonePush)

// HC16_ClonePush: pushing / reversing one side is invisible through the other (spare capacity must not be shared either).
func HC16_ClonePush() {
	lay := AnyLayout("lay", Layouts)
	g := MultiPolygonWF("g", lay, 2, 2, 2)
	// give the original spare capacity so that an in-place append would be visible
	g.Reserve(sym.Pick(12, 16))
	c := g.Clone()
	sg := SnapOf(g)
	sym.Assert(c.Push(PolygonWF("p", lay, 2, 2)) == nil, "push on clone")
	c.Reverse()
	sym.Assert(SameSnap(SnapOf(g), sg), "Push/Reverse on the clone invisible in the original")
	sc := SnapOf(c)
	sym.Assert(g.Push(PolygonWF("q", lay, 1, 2)) == nil, "push on original")
	g.Reverse()
	sym.Assert(SameSnap(SnapOf(c), sc), "Push/Reverse on the original invisible in the clone")
	sym.Cover("end")
}

var _ = register("HC16_CoordBounds", HC16_CoordBounds)

func HC16_CoordBounds() {
	n := Count("n", 0, 6)
	var c geom.Coord
	if n > 0 || !sym.Flip("nil") {
		c = make(geom.Coord, n)
		for i := range c {
			c[i] = Ord(sym.N("c", i))
		}
	}
	cc := c.Clone()
	sym.Assert(SameFlat(c, cc) && (c == nil) == (cc == nil), "Coord clone equal")
	sym.Assert(sym.NoAlias([]float64(c), []float64(cc)), "Coord clone shares no storage")
	lay := AnyLayout("lay", Layouts)
	b := geom.NewBounds(lay)
	if sym.Flip("extended") {
		b.Extend(LineStringWF("l", lay, 2))
	}
	bc := b.Clone()
	sym.Assert(bc.Layout() == b.Layout(), "Bounds clone layout")
	for d := 0; d < lay.Stride(); d++ {
		sym.Assert(sym.And(sym.SameBits(b.Min(d), bc.Min(d)), sym.SameBits(b.Max(d), bc.Max(d))), "Bounds clone equal")
	}
	// mutate the clone through Set and check the original
	mn0 := make([]float64, lay.Stride())
	for d := range mn0 {
		mn0[d] = b.Min(d)
	}
	args := make([]float64, 2*lay.Stride())
	for i := range args {
		args[i] = Ord(sym.N("a", i))
	}
	bc.Set(args...)
	for d := range mn0 {
		sym.Assert(sym.SameBits(b.Min(d), mn0[d]), "Set on the clone invisible in the original")
	}
	sym.Cover("end")
}
