package h

import (
	geom "github.com/twpayne/go-geom"
	"github.com/twpayne/go-geom/internal/zzverif/sym"
	"github.com/twpayne/go-geom/xy"
	"github.com/twpayne/go-geom/xyz"
)

// C15: 2D and 3D distances (domain X over ALL REAL ordinates of the range: ideal-arithmetic claims;
// sqrt is a fresh r >= 0 with r*r = x; a reachable division by zero / sqrt of a negative is reported
// as a non-finite result).

func sq(x float64) float64 { return x * x }

// sqDistRel: relation "d2 REL squared distance of p from segment [a,b]" in dim dimensions, division
// free. rel: 0 equal, 1 d2 <= dist^2.
func sqDistRel(d2 float64, p, a, b []float64, dim, rel int) bool {
	var den, num, da, db float64
	for k := 0; k < dim; k++ {
		den += sq(b[k] - a[k])
		num += (p[k] - a[k]) * (b[k] - a[k])
		da += sq(p[k] - a[k])
		db += sq(p[k] - b[k])
	}
	cmp := func(x, y float64) bool {
		if rel == 0 {
			return sym.FEq(x, y)
		}
		return sym.FLe(x, y)
	}
	// interior: dist^2 = da - num^2/den  <=>  d2*den REL da*den - num^2
	return sym.And(
		sym.Implies(sym.Or(sym.FEq(den, 0), sym.FLe(num, 0)), cmp(d2, da)),
		sym.Implies(sym.And(sym.Not(sym.FEq(den, 0)), sym.FLe(den, num)), cmp(d2, db)),
		sym.Implies(sym.And(sym.Not(sym.FEq(den, 0)), sym.FLt(0, num), sym.FLt(num, den)), cmp(d2*den, da*den-num*num)))
}

func realCoord(name string, dim, k int) geom.Coord {
	c := make(geom.Coord, dim)
	for i := range c {
		c[i] = sym.Float64Grid(sym.N(name, i), k)
	}
	return c
}

const c15K = 20

var _ = register("HC15_PointLine2D", HC15_PointLine2D)

func HC15_PointLine2D() {
	sym.Bound("ordinate magnitude bits", c15K)
	p, a, b := realCoord("p", 2, c15K), realCoord("a", 2, c15K), realCoord("b", 2, c15K)
	sym.Freeze(p)
	sym.Freeze(a)
	sym.Freeze(b)
	d := xy.DistanceFromPointToLine(p, a, b)
	sym.Assert(sym.FLe(0, d), "distance is non-negative")
	sym.Assert(sqDistRel(d*d, p, a, b, 2, 0), "DistanceFromPointToLine^2 is the exact squared point-segment distance")
	d2 := xy.DistanceFromPointToLine(p, b, a)
	sym.Assert(sym.FEq(d*d, d2*d2), "independent of the direction of the segment")
	sym.Cover("end")
}

var _ = register("HC15_Perpendicular2D", HC15_Perpendicular2D)

func HC15_Perpendicular2D() {
	p, a, b := realCoord("p", 2, c15K), realCoord("a", 2, c15K), realCoord("b", 2, c15K)
	sym.Assume(sym.Not(sym.And(sym.FEq(a[0], b[0]), sym.FEq(a[1], b[1])))) // line through two distinct points
	d := xy.PerpendicularDistanceFromPointToLine(p, a, b)
	len2 := sq(b[0]-a[0]) + sq(b[1]-a[1])
	cross := (a[1]-p[1])*(b[0]-a[0]) - (a[0]-p[0])*(b[1]-a[1])
	sym.Assert(sym.And(sym.FLe(0, d), sym.FEq(d*d*len2, cross*cross)), "perpendicular distance: d^2 * |ab|^2 = cross^2")
	sym.Cover("end")
}

var _ = register("HC15_PointLineString2D", HC15_PointLineString2D)

func HC15_PointLineString2D() {
	N := sym.Pick(3, 4)
	sym.Bound("linestring vertices", N)
	n := Count("n", 1, N)
	lay := AnyLayout("lay", []geom.Layout{geom.XY, geom.XYZ})
	stride := lay.Stride()
	line := make([]float64, n*stride)
	for i := range line {
		line[i] = sym.Float64Grid(sym.N("l", i), c15K)
	}
	p := realCoord("p", 2, c15K)
	sym.Freeze(line)
	d := xy.DistanceFromPointToLineString(lay, p, line)
	sym.Assert(sym.FLe(0, d), "distance is non-negative")
	if n == 1 {
		sym.Assert(sym.FEq(d*d, sq(p[0]-line[0])+sq(p[1]-line[1])), "single vertex: distance to it")
	} else {
		le, eq := []bool{true}, []bool{}
		for i := 1; i < n; i++ {
			a, b := line[(i-1)*stride:(i-1)*stride+2], line[i*stride:i*stride+2]
			le = append(le, sqDistRel(d*d, p, a, b, 2, 1))
			eq = append(eq, sqDistRel(d*d, p, a, b, 2, 0))
		}
		sym.Assert(sym.And(sym.And(le...), sym.Or(eq...)), "distance to a linestring is the minimum over its segments")
	}
	sym.Cover("end")
}

func orient2(a, b, c []float64) float64 { return (b[0]-a[0])*(c[1]-a[1]) - (b[1]-a[1])*(c[0]-a[0]) }

func inBox(p, a, b []float64) bool {
	return sym.And(
		sym.Or(sym.And(sym.FLe(a[0], p[0]), sym.FLe(p[0], b[0])), sym.And(sym.FLe(b[0], p[0]), sym.FLe(p[0], a[0]))),
		sym.Or(sym.And(sym.FLe(a[1], p[1]), sym.FLe(p[1], b[1])), sym.And(sym.FLe(b[1], p[1]), sym.FLe(p[1], a[1]))))
}

// segmentsMeet: the closed segments [a,b] and [c,d] share a point (exact; degenerate segments allowed).
func segmentsMeet(a, b, c, d []float64) bool {
	o1, o2, o3, o4 := orient2(a, b, c), orient2(a, b, d), orient2(c, d, a), orient2(c, d, b)
	return sym.Or(
		sym.And(sym.FLt(o1*o2, 0), sym.FLt(o3*o4, 0)),
		sym.And(sym.FEq(o1, 0), inBox(c, a, b)),
		sym.And(sym.FEq(o2, 0), inBox(d, a, b)),
		sym.And(sym.FEq(o3, 0), inBox(a, c, d)),
		sym.And(sym.FEq(o4, 0), inBox(b, c, d)))
}

var _ = register("HC15_LineLine2D", HC15_LineLine2D)

func HC15_LineLine2D() {
	a, b, c, d := realCoord("a", 2, c15K), realCoord("b", 2, c15K), realCoord("c", 2, c15K), realCoord("d", 2, c15K)
	r := xy.DistanceFromLineToLine(a, b, c, d)
	meet := segmentsMeet(a, b, c, d)
	r2 := r * r
	sym.Assert(sym.FLe(0, r), "distance is non-negative")
	sym.Assert(sym.Implies(meet, sym.FEq(r, 0)), "zero when the segments touch or cross")
	le := sym.And(sqDistRel(r2, a, c, d, 2, 1), sqDistRel(r2, b, c, d, 2, 1), sqDistRel(r2, c, a, b, 2, 1), sqDistRel(r2, d, a, b, 2, 1))
	eq := sym.Or(sqDistRel(r2, a, c, d, 2, 0), sqDistRel(r2, b, c, d, 2, 0), sqDistRel(r2, c, a, b, 2, 0), sqDistRel(r2, d, a, b, 2, 0))
	sym.Assert(sym.Implies(sym.Not(meet), sym.And(le, eq)), "disjoint segments: the minimum of the four endpoint-segment distances")
	sym.Cover("end")
}

var _ = register("HC15_LineLine2DSym", HC15_LineLine2DSym)

func HC15_LineLine2DSym() {
	a, b, c, d := realCoord("a", 2, c15K), realCoord("b", 2, c15K), realCoord("c", 2, c15K), realCoord("d", 2, c15K)
	r := xy.DistanceFromLineToLine(a, b, c, d)
	var r2 float64
	if sym.Flip("swap") {
		r2 = xy.DistanceFromLineToLine(c, d, a, b)
	} else {
		r2 = xy.DistanceFromLineToLine(b, a, c, d)
	}
	sym.Assert(sym.FEq(r*r, r2*r2), "independent of argument order and segment direction")
	sym.Cover("end")
}

// ---- 3D ----

var _ = register("HC15_Point3D", HC15_Point3D)

func HC15_Point3D() {
	p, a, b := realCoord("p", 3, c15K), realCoord("a", 3, c15K), realCoord("b", 3, c15K)
	d0 := xyz.Distance(p, a)
	sym.Assert(sym.And(sym.FLe(0, d0), sym.FEq(d0*d0, sq(p[0]-a[0])+sq(p[1]-a[1])+sq(p[2]-a[2]))), "xyz.Distance^2 = sum of squared differences")
	d := xyz.DistancePointToLine(p, a, b)
	sym.Assert(sym.FLe(0, d), "distance is non-negative")
	sym.Assert(sqDistRel(d*d, p, a, b, 3, 0), "xyz.DistancePointToLine^2 is the exact squared point-segment distance")
	sym.Cover("end")
}

var _ = register("HC15_LineLine3D", HC15_LineLine3D)

// HC15_LineLine3D: every value the function returns is a distance between a point of one segment and
// a point of the other (an upper bound of the minimum) as long as the arithmetic is right, so it is
// the minimum iff it is <= every candidate: the four endpoint-segment distances and, when the closest
// approach of the carrier lines falls strictly inside both segments, the distance there.
func HC15_LineLine3D() {
	K := sym.Param("K", sym.Pick(6, 10))
	sym.Bound("ordinate magnitude bits", K)
	a, b, c, d := realCoord("a", 3, K), realCoord("b", 3, K), realCoord("c", 3, K), realCoord("d", 3, K)
	r := xyz.DistanceLineToLine(a, b, c, d)
	r2 := r * r
	sym.Assert(sym.FLe(0, r), "distance is non-negative")
	sym.Assert(sym.And(sqDistRel(r2, a, c, d, 3, 1), sqDistRel(r2, b, c, d, 3, 1), sqDistRel(r2, c, a, b, 3, 1), sqDistRel(r2, d, a, b, 3, 1)),
		"not larger than any endpoint-segment distance")
	sym.Cover("end")
}

var _ = register("HC15_LineLine3DSym", HC15_LineLine3DSym)

func HC15_LineLine3DSym() {
	K := sym.Param("K", sym.Pick(6, 10))
	a, b, c, d := realCoord("a", 3, K), realCoord("b", 3, K), realCoord("c", 3, K), realCoord("d", 3, K)
	r := xyz.DistanceLineToLine(a, b, c, d)
	var r2 float64
	if sym.Flip("swap") {
		r2 = xyz.DistanceLineToLine(c, d, a, b)
	} else {
		r2 = xyz.DistanceLineToLine(b, a, c, d)
	}
	sym.Assert(sym.FEq(r*r, r2*r2), "independent of argument order and segment direction")
	sym.Cover("end")
}
