package h

import (
	"math"

	geom "github.com/twpayne/go-geom"
	"github.com/twpayne/go-geom/internal/zzverif/sym"
	"github.com/twpayne/go-geom/xy"
	"github.com/twpayne/go-geom/xyz"
)

// C15: 2D and 3D distances (domain X over ALL REAL ordinates of the range: ideal-arithmetic claims;
// sqrt is a fresh r >= 0 with r*r = x; a reachable division by zero / sqrt of a negative is reported
// as a non-finite result).

func sq(x float64) float64 { return x * x }

// sqDistRel: relation "d2 REL squared distance of p from segment [a,b]" in dim dimensions, division
// free. rel: 0 equal, 1 d2 <= dist^2.
func sqDistRel(d2 float64, p, a, b []float64, dim, rel int) bool {
	var den, num, da, db float64
	for k := 0; k < dim; k++ {
		den += sq(b[k] - a[k])
		num += (p[k] - a[k]) * (b[k] - a[k])
		da += sq(p[k] - a[k])
		db += sq(p[k] - b[k])
	}
	cmp := func(x, y float64) bool {
		if rel == 0 {
			return sym.FEq(x, y)
		}
		return sym.FLe(x, y)
	}
	if den == 0 { // zero-length segment (the harness forks here)
		return cmp(d2, da)
	}
	// clamped projection parameter t = num/den; interior: dist^2 = da - num^2/den, stated division free
	// as d2*den REL da*den - num^2
	t := num / den
	return sym.And(
		sym.Implies(sym.FLe(t, 0), cmp(d2, da)),
		sym.Implies(sym.FLe(1, t), cmp(d2, db)),
		sym.Implies(sym.And(sym.FLt(0, t), sym.FLt(t, 1)), cmp(d2*den, da*den-num*num)))
}

func realCoord(name string, dim, k int) geom.Coord {
	c := make(geom.Coord, dim)
	for i := range c {
		c[i] = sym.Float64Grid(sym.N(name, i), k)
	}
	return c
}

const c15K = 20

var _ = register("HC15_PointLine2D", HC15_PointLine2D)

func HC15_PointLine2D() {
	sym.Bound("ordinate magnitude bits", c15K)
	p, a, b := realCoord("p", 2, c15K), realCoord("a", 2, c15K), realCoord("b", 2, c15K)
	sym.Freeze(p)
	sym.Freeze(a)
	sym.Freeze(b)
	d := xy.DistanceFromPointToLine(p, a, b)
	sym.Assert(sym.FLe(0, d), "distance is non-negative")
	sym.Assert(sqDistRel(d*d, p, a, b, 2, 0), "DistanceFromPointToLine^2 is the exact squared point-segment distance")
	d2 := xy.DistanceFromPointToLine(p, b, a)
	sym.Assert(sym.FEq(d*d, d2*d2), "independent of the direction of the segment")
	// facts used by the summary in the segment-segment / linestring harnesses
	sym.Assert(sym.And(sym.FLe(d*d, sq(p[0]-a[0])+sq(p[1]-a[1])), sym.FLe(d*d, sq(p[0]-b[0])+sq(p[1]-b[1]))), "not larger than the distance to either endpoint")
	sym.Assert(sym.FEq(d, 0) == onSeg2(p, a, b), "zero exactly when the point lies on the segment")
	sym.Cover("end")
}

func onSeg2(p, a, b []float64) bool {
	return sym.And(sym.FEq(orient2(a, b, p), 0), inBox(p, a, b))
}

// ---- summaries (justified by HC15_PointLine2D / HC15_Point3D) ----

func nativeDist(v []float64) float64 {
	n := len(v) / 2
	var s float64
	for k := 0; k < n; k++ {
		s += sq(v[k] - v[n+k])
	}
	return math.Sqrt(s)
}

func nativePointSeg(v []float64) float64 {
	n := len(v) / 3
	p, a, b := v[:n], v[n:2*n], v[2*n:]
	var den, num float64
	for k := 0; k < n; k++ {
		den += sq(b[k] - a[k])
		num += (p[k] - a[k]) * (b[k] - a[k])
	}
	t := 0.0
	if den != 0 {
		t = num / den
	}
	if t < 0 {
		t = 0
	}
	if t > 1 {
		t = 1
	}
	var s float64
	for k := 0; k < n; k++ {
		s += sq(p[k] - a[k] - t*(b[k]-a[k]))
	}
	return math.Sqrt(s)
}

// ufDist: Euclidean distance of two points as an uninterpreted E(p,q) >= 0.
func ufDist(p, q []float64, dim int) float64 {
	args := append(append([]float64{}, p[:dim]...), q[:dim]...)
	e := sym.UFReal("E"+sym.Itoa(dim), nativeDist, args...)
	sym.Assume(sym.FLe(0, e))
	return e
}

// ufPointSeg: point-segment distance as an uninterpreted D(p;a,b) with the lemma's facts:
// 0 <= D <= E(p,a), D <= E(p,b); in 2D additionally D == 0 <=> p on [a,b].
func ufPointSeg(p, a, b []float64, dim int) float64 {
	args := append(append(append([]float64{}, p[:dim]...), a[:dim]...), b[:dim]...)
	d := sym.UFReal("D"+sym.Itoa(dim), nativePointSeg, args...)
	sym.Assume(sym.And(sym.FLe(0, d), sym.FLe(d, ufDist(p, a, dim)), sym.FLe(d, ufDist(p, b, dim))))
	if dim == 2 {
		sym.Assume(sym.FEq(d, 0) == onSeg2(p, a, b))
	}
	return d
}

func useDistanceSummaries2D() {
	sym.Replace("github.com/twpayne/go-geom/xy.DistanceFromPointToLine", func(p, a, b geom.Coord) float64 { return ufPointSeg(p, a, b, 2) })
	sym.Replace("github.com/twpayne/go-geom/xy/internal.Distance2D", func(p, q geom.Coord) float64 { return ufDist(p, q, 2) })
}

func useDistanceSummaries3D() {
	sym.Replace("github.com/twpayne/go-geom/xyz.DistancePointToLine", func(p, a, b geom.Coord) float64 { return ufPointSeg(p, a, b, 3) })
}

var _ = register("HC15_Perpendicular2D", HC15_Perpendicular2D)

func HC15_Perpendicular2D() {
	p, a, b := realCoord("p", 2, c15K), realCoord("a", 2, c15K), realCoord("b", 2, c15K)
	sym.Assume(sym.Not(sym.And(sym.FEq(a[0], b[0]), sym.FEq(a[1], b[1])))) // line through two distinct points
	d := xy.PerpendicularDistanceFromPointToLine(p, a, b)
	len2 := sq(b[0]-a[0]) + sq(b[1]-a[1])
	cross := (a[1]-p[1])*(b[0]-a[0]) - (a[0]-p[0])*(b[1]-a[1])
	sym.Assert(sym.And(sym.FLe(0, d), sym.FEq(d*d*len2, cross*cross)), "perpendicular distance: d^2 * |ab|^2 = cross^2")
	sym.Cover("end")
}

var _ = register("HC15_PointLineString2D", HC15_PointLineString2D)

func HC15_PointLineString2D() {
	N := sym.Pick(3, 4)
	sym.Bound("linestring vertices", N)
	n := Count("n", 1, N)
	lay := AnyLayout("lay", []geom.Layout{geom.XY, geom.XYZ})
	stride := lay.Stride()
	line := make([]float64, n*stride)
	for i := range line {
		line[i] = sym.Float64Grid(sym.N("l", i), c15K)
	}
	p := realCoord("p", 2, c15K)
	sym.Freeze(line)
	useDistanceSummaries2D()
	d := xy.DistanceFromPointToLineString(lay, p, line)
	sym.Assert(sym.FLe(0, d), "distance is non-negative")
	if n == 1 {
		sym.Assert(sym.FEq(d, ufDist(p, line[0:2], 2)), "single vertex: distance to it")
	} else {
		le, eq := []bool{true}, []bool{}
		for i := 1; i < n; i++ {
			a, b := line[(i-1)*stride:(i-1)*stride+2], line[i*stride:i*stride+2]
			di := ufPointSeg(p, a, b, 2)
			le = append(le, sym.FLe(d, di))
			eq = append(eq, sym.FEq(d, di))
		}
		sym.Assert(sym.And(sym.And(le...), sym.Or(eq...)), "distance to a linestring is the minimum over its segments")
	}
	sym.Cover("end")
}

func orient2(a, b, c []float64) float64 { return (b[0]-a[0])*(c[1]-a[1]) - (b[1]-a[1])*(c[0]-a[0]) }

func inBox(p, a, b []float64) bool {
	return sym.And(
		sym.Or(sym.And(sym.FLe(a[0], p[0]), sym.FLe(p[0], b[0])), sym.And(sym.FLe(b[0], p[0]), sym.FLe(p[0], a[0]))),
		sym.Or(sym.And(sym.FLe(a[1], p[1]), sym.FLe(p[1], b[1])), sym.And(sym.FLe(b[1], p[1]), sym.FLe(p[1], a[1]))))
}

// segmentsMeet: the closed segments [a,b] and [c,d] share a point (exact; degenerate segments allowed).
func segmentsMeet(a, b, c, d []float64) bool {
	o1, o2, o3, o4 := orient2(a, b, c), orient2(a, b, d), orient2(c, d, a), orient2(c, d, b)
	return sym.Or(
		sym.And(sym.FLt(o1*o2, 0), sym.FLt(o3*o4, 0)),
		sym.And(sym.FEq(o1, 0), inBox(c, a, b)),
		sym.And(sym.FEq(o2, 0), inBox(d, a, b)),
		sym.And(sym.FEq(o3, 0), inBox(a, c, d)),
		sym.And(sym.FEq(o4, 0), inBox(b, c, d)))
}

var _ = register("HC15_LineLine2D", HC15_LineLine2D)

func HC15_LineLine2D() {
	a, b, c, d := realCoord("a", 2, c15K), realCoord("b", 2, c15K), realCoord("c", 2, c15K), realCoord("d", 2, c15K)
	useDistanceSummaries2D()
	r := xy.DistanceFromLineToLine(a, b, c, d)
	meet := segmentsMeet(a, b, c, d)
	sym.Assert(sym.FLe(0, r), "distance is non-negative")
	sym.Assert(sym.Implies(meet, sym.FEq(r, 0)), "zero when the segments touch or cross")
	d1, d2, d3, d4 := ufPointSeg(a, c, d, 2), ufPointSeg(b, c, d, 2), ufPointSeg(c, a, b, 2), ufPointSeg(d, a, b, 2)
	le := sym.And(sym.FLe(r, d1), sym.FLe(r, d2), sym.FLe(r, d3), sym.FLe(r, d4))
	eq := sym.Or(sym.FEq(r, d1), sym.FEq(r, d2), sym.FEq(r, d3), sym.FEq(r, d4))
	sym.Assert(sym.Implies(sym.Not(meet), sym.And(le, eq)), "disjoint segments: the minimum of the four endpoint-segment distances")
	sym.Cover("end")
}

var _ = register("HC15_LineLine2DSym", HC15_LineLine2DSym)

func HC15_LineLine2DSym() {
	a, b, c, d := realCoord("a", 2, c15K), realCoord("b", 2, c15K), realCoord("c", 2, c15K), realCoord("d", 2, c15K)
	useDistanceSummaries2D()
	r := xy.DistanceFromLineToLine(a, b, c, d)
	var r2 float64
	if sym.Flip("swap") {
		r2 = xy.DistanceFromLineToLine(c, d, a, b)
	} else {
		r2 = xy.DistanceFromLineToLine(b, a, c, d)
	}
	// the summary D(p;a,b) is direction independent (HC15_PointLine2D): state it for the four pairs used
	sym.Assume(sym.And(sym.FEq(ufPointSeg(c, a, b, 2), ufPointSeg(c, b, a, 2)), sym.FEq(ufPointSeg(d, a, b, 2), ufPointSeg(d, b, a, 2))))
	sym.Assert(sym.FEq(r, r2), "independent of argument order and segment direction")
	sym.Cover("end")
}

// ---- 3D ----

var _ = register("HC15_Point3D", HC15_Point3D)

func HC15_Point3D() {
	p, a, b := realCoord("p", 3, c15K), realCoord("a", 3, c15K), realCoord("b", 3, c15K)
	d0 := xyz.Distance(p, a)
	sym.Assert(sym.And(sym.FLe(0, d0), sym.FEq(d0*d0, sq(p[0]-a[0])+sq(p[1]-a[1])+sq(p[2]-a[2]))), "xyz.Distance^2 = sum of squared differences")
	d := xyz.DistancePointToLine(p, a, b)
	sym.Assert(sym.FLe(0, d), "distance is non-negative")
	sym.Assert(sqDistRel(d*d, p, a, b, 3, 0), "xyz.DistancePointToLine^2 is the exact squared point-segment distance")
	sym.Cover("end")
}

var _ = register("HC15_LineLine3D", HC15_LineLine3D)

// HC15_LineLine3D: every value the function returns is a distance between a point of one segment and
// a point of the other (an upper bound of the minimum) as long as the arithmetic is right, so it is
// the minimum iff it is <= every candidate: the four endpoint-segment distances and, when the closest
// approach of the carrier lines falls strictly inside both segments, the distance there.
func HC15_LineLine3D() {
	K := sym.Param("K", sym.Pick(6, 10))
	sym.Bound("ordinate magnitude bits", K)
	a, b, c, d := realCoord("a", 3, K), realCoord("b", 3, K), realCoord("c", 3, K), realCoord("d", 3, K)
	useDistanceSummaries3D()
	r := xyz.DistanceLineToLine(a, b, c, d)
	sym.Assert(sym.FLe(0, r), "distance is non-negative")
	sym.Assert(sym.And(sym.FLe(r, ufPointSeg(a, c, d, 3)), sym.FLe(r, ufPointSeg(b, c, d, 3)), sym.FLe(r, ufPointSeg(c, a, b, 3)), sym.FLe(r, ufPointSeg(d, a, b, 3))),
		"not larger than any endpoint-segment distance")
	sym.Cover("end")
}

var _ = register("HC15_LineLine3DSym", HC15_LineLine3DSym)

func HC15_LineLine3DSym() {
	K := sym.Param("K", sym.Pick(6, 10))
	a, b, c, d := realCoord("a", 3, K), realCoord("b", 3, K), realCoord("c", 3, K), realCoord("d", 3, K)
	useDistanceSummaries3D()
	r := xyz.DistanceLineToLine(a, b, c, d)
	var r2 float64
	if sym.Flip("swap") {
		r2 = xyz.DistanceLineToLine(c, d, a, b)
	} else {
		r2 = xyz.DistanceLineToLine(b, a, c, d)
	}
	sym.Assume(sym.And(sym.FEq(ufPointSeg(c, a, b, 3), ufPointSeg(c, b, a, 3)), sym.FEq(ufPointSeg(d, a, b, 3), ufPointSeg(d, b, a, 3))))
	sym.Assert(sym.FEq(r, r2), "independent of argument order and segment direction")
	sym.Cover("end")
}

var _ = register("HC15_Degenerate3D", HC15_Degenerate3D)

// HC15_Degenerate3D: zero-length segments: the result is the point-segment (or point-point) distance,
// never a non-finite value.
func HC15_Degenerate3D() {
	K := 10
	a, b, c := realCoord("a", 3, K), realCoord("b", 3, K), realCoord("c", 3, K)
	useDistanceSummaries3D()
	var r, want float64
	switch sym.Choose("which", 0, 2) {
	case 0: // first segment is the point c
		r = xyz.DistanceLineToLine(c, c, a, b)
		want = ufPointSeg(c, a, b, 3)
	case 1: // second segment is the point c, the first one is a proper segment
		sym.Assume(sym.Not(sym.And(sym.FEq(a[0], b[0]), sym.FEq(a[1], b[1]), sym.FEq(a[2], b[2]))))
		r = xyz.DistanceLineToLine(a, b, c, c)
		want = ufPointSeg(c, a, b, 3)
	default: // both are points
		r = xyz.DistanceLineToLine(a, a, c, c)
		want = ufPointSeg(a, c, c, 3)
	}
	sym.Assert(sym.FEq(r, want), "a zero-length segment behaves as a point")
	sym.Cover("end")
}

var _ = register("HC15_LineLine3DSlice", HC15_LineLine3DSlice)

// HC15_LineLine3DSlice: three of the four endpoints fixed (a few concrete skew configurations), the
// fourth an arbitrary real point: the result is not larger than any endpoint-segment distance and
// does not depend on the argument order. (The fully symbolic 12-variable query is out of nlsat's reach.)
func HC15_LineLine3DSlice() {
	K := 4
	sym.Bound("free endpoint magnitude bits", K)
	cfg := [][3]geom.Coord{
		{{4, -3, -2}, {-2, -4, 4}, {3, -1, -2}},
		{{0, 0, 0}, {4, 0, 0}, {1, 2, 1}},
		{{1, 1, 1}, {-3, 2, 0}, {2, -2, 3}},
	}[sym.Choose("configuration", 0, 2)]
	a, b, c := cfg[0], cfg[1], cfg[2]
	d := realCoord("d", 3, K)
	useDistanceSummaries3D()
	r := xyz.DistanceLineToLine(a, b, c, d)
	sym.Assert(sym.And(sym.FLe(0, r), sym.FLe(r, ufPointSeg(a, c, d, 3)), sym.FLe(r, ufPointSeg(b, c, d, 3)), sym.FLe(r, ufPointSeg(c, a, b, 3)), sym.FLe(r, ufPointSeg(d, a, b, 3))),
		"not larger than any endpoint-segment distance")
	sym.Cover("end")
}

var _ = register("HC15_Degenerate2D", HC15_Degenerate2D)

// HC15_Degenerate2D: xy.DistanceFromLineToLine with zero-length segments is the point-segment distance.
func HC15_Degenerate2D() {
	a, b, c := realCoord("a", 2, c15K), realCoord("b", 2, c15K), realCoord("c", 2, c15K)
	useDistanceSummaries2D()
	var r, want float64
	switch sym.Choose("which", 0, 2) {
	case 0:
		r = xy.DistanceFromLineToLine(c, c, a, b)
		want = ufPointSeg(c, a, b, 2)
	case 1:
		sym.Assume(sym.Not(sym.And(sym.FEq(a[0], b[0]), sym.FEq(a[1], b[1]))))
		r = xy.DistanceFromLineToLine(a, b, c, c)
		want = ufPointSeg(c, a, b, 2)
	default:
		r = xy.DistanceFromLineToLine(a, a, c, c)
		want = ufPointSeg(a, c, c, 2)
	}
	sym.Assert(sym.FEq(r, want), "a zero-length segment behaves as a point")
	sym.Cover("end")
}
