package xy

import (
	geom "github.com/twpayne/go-geom"
	"github.com/twpayne/go-geom/internal/zzverif/sym"
	"github.com/twpayne/go-geom/xy/internal/robustdeterminate"
	"github.com/twpayne/go-geom/xy/lineintersector"
	"github.com/twpayne/go-geom/xy/location"
	"github.com/twpayne/go-geom/xy/orientation"
)

// C11: point location against rings and lines is exact (domain X).
//
// Summaries (each justified by its own harness): robustdeterminate.SignOfDet2x2 is replaced by its
// specification sign(x1*y2 - y1*x2) (HC11_SignOfDet checks the real loop against it on a small
// grid); bigxy.OrientationIndex by the sign of the exact determinant (C10, grid <= 2^25).

const signOfDetFn = "github.com/twpayne/go-geom/xy/internal/robustdeterminate.SignOfDet2x2"
const orientFn = "github.com/twpayne/go-geom/bigxy.OrientationIndex"

// sign3 returns -1/0/1 for the sign of an exact value by branching (3 paths).
func sign3(d float64) int {
	if d > 0 {
		return 1
	}
	if d < 0 {
		return -1
	}
	return 0
}

func useSignOfDetSummary() {
	// robustdeterminate.Sign is an int type with Negative=-1, Zero=0, Positive=1; the closure's result
	// type must be that named type, which lives in an internal package: go through a typed helper there.
	sym.Replace(signOfDetFn, robustdeterminate.SpecFn())
}

func useOrientationSummary() {
	sym.Replace(orientFn, func(o, e, p geom.Coord) orientation.Type {
		return orientation.Type(sign3((e[0]-o[0])*(p[1]-o[1]) - (e[1]-o[1])*(p[0]-o[0])))
	})
}

// onSegment: p lies on the closed segment [a,b] (exact, non-forking).
func onSegment(px, py, ax, ay, bx, by float64) bool {
	cross := (bx-ax)*(py-ay) - (by-ay)*(px-ax)
	return sym.And(sym.FEq(cross, 0),
		sym.Or(sym.And(sym.FLe(ax, px), sym.FLe(px, bx)), sym.And(sym.FLe(bx, px), sym.FLe(px, ax))),
		sym.Or(sym.And(sym.FLe(ay, py), sym.FLe(py, by)), sym.And(sym.FLe(by, py), sym.FLe(py, ay))))
}

// crossesRay: the edge a->b crosses the horizontal ray from p to +infinity under the half-open rule
// (an edge contains its lower endpoint only). Exact, non-forking.
func crossesRay(px, py, ax, ay, bx, by float64) bool {
	orient := (ax-px)*(by-py) - (bx-px)*(ay-py) // twice the signed area of (p,a,b)
	up := sym.And(sym.FLe(ay, py), sym.FLt(py, by))
	down := sym.And(sym.FLe(by, py), sym.FLt(py, ay))
	return sym.Or(sym.And(up, sym.FLt(0, orient)), sym.And(down, sym.FLt(orient, 0)))
}

// refLocate: exact even-odd location of p against the closed ring (n coordinates, last == first).
func refLocate(px, py float64, ring []float64, n, stride int) (boundary, inside bool) {
	bs := make([]bool, 0, n)
	inside = false
	for i := 1; i < n; i++ {
		ax, ay := ring[(i-1)*stride], ring[(i-1)*stride+1]
		bx, by := ring[i*stride], ring[i*stride+1]
		bs = append(bs, onSegment(px, py, ax, ay, bx, by))
		inside = inside != crossesRay(px, py, ax, ay, bx, by)
	}
	return sym.Or(bs...), inside
}

func closedRing(prefix string, verts, stride, k int) []float64 {
	ring := make([]float64, (verts+1)*stride)
	for i := 0; i < verts*stride; i++ {
		ring[i] = sym.Float64Grid(sym.N(prefix, i), k)
	}
	copy(ring[verts*stride:], ring[:stride])
	return ring
}

var _ = sym.Register("HC11_Ring", HC11_Ring)

// HC11_Ring: LocatePointInRing / IsPointInRing against the exact even-odd rule for EVERY closed ring
// of <=3|4 distinct-position vertices (self-intersecting, repeated vertices, horizontal edges, vertices
// level with the point all included) and every point; stride 2..4; also with the ring reversed and
// rotated by one vertex (same answer).
func HC11_Ring() {
	V := sym.Param("V", sym.Pick(3, 4))
	K := 24
	sym.Bound("vertices", V)
	sym.Bound("grid bits", K)
	verts := sym.Choose("vertices", 3, V)
	lay := []geom.Layout{geom.XY, geom.XYZ, geom.XYZM}[sym.Choose("lay", 0, sym.Pick(1, 2))]
	stride := lay.Stride()
	ring := closedRing("r", verts, stride, K)
	p := geom.Coord{sym.Float64Grid("px", K), sym.Float64Grid("py", K)}
	variant := sym.Choose("variant", 0, 2)
	use := ring
	switch variant {
	case 1: // reversed
		use = make([]float64, len(ring))
		for i := 0; i <= verts; i++ {
			copy(use[i*stride:(i+1)*stride], ring[(verts-i)*stride:(verts-i+1)*stride])
		}
	case 2: // start at the next vertex
		use = make([]float64, len(ring))
		for i := 0; i <= verts; i++ {
			j := (i + 1) % verts
			copy(use[i*stride:(i+1)*stride], ring[j*stride:(j+1)*stride])
		}
	}
	sym.Freeze(use)
	sym.Freeze(p)
	useSignOfDetSummary()
	got := LocatePointInRing(lay, p, use)
	in := IsPointInRing(lay, p, use)
	boundary, inside := refLocate(p[0], p[1], ring, verts+1, stride)
	sym.Assert(sym.And(boundary == (got == location.Boundary),
		sym.Implies(sym.Not(boundary), inside == (got == location.Interior)),
		got == location.Boundary || got == location.Interior || got == location.Exterior),
		"LocatePointInRing equals the exact even-odd rule (boundary iff on an edge or vertex)")
	sym.Assert(in == (got != location.Exterior), "IsPointInRing is true exactly for interior and boundary")
	sym.Cover("end")
}

var _ = sym.Register("HC11_RingEndToEnd", HC11_RingEndToEnd)

// HC11_RingEndToEnd: the same without the SignOfDet summary, triangle rings on a small grid.
func HC11_RingEndToEnd() {
	K := sym.Param("K", 1)
	sym.Bound("grid bits", K)
	sym.Bound("vertices", 3)
	ring := closedRing("r", 3, 2, K)
	p := geom.Coord{sym.Float64Grid("px", K), sym.Float64Grid("py", K)}
	got := LocatePointInRing(geom.XY, p, ring)
	boundary, inside := refLocate(p[0], p[1], ring, 4, 2)
	sym.Assert(sym.And(boundary == (got == location.Boundary),
		sym.Implies(sym.Not(boundary), inside == (got == location.Interior))),
		"LocatePointInRing equals the exact even-odd rule (boundary iff on an edge or vertex)")
	sym.Cover("end")
}

var _ = sym.Register("HC11_OnLine", HC11_OnLine)

// HC11_OnLine: IsOnLine / PointIntersectsLine <=> the point lies on one of the segments (exact).
func HC11_OnLine() {
	N := sym.Param("N", sym.Pick(3, 4))
	K := 24
	sym.Bound("line vertices", N)
	sym.Bound("grid bits", K)
	n := sym.Choose("n", 2, N)
	lay := []geom.Layout{geom.XY, geom.XYZ}[sym.Choose("lay", 0, 1)]
	stride := lay.Stride()
	line := make([]float64, n*stride)
	for i := range line {
		line[i] = sym.Float64Grid(sym.N("l", i), K)
	}
	p := geom.Coord{sym.Float64Grid("px", K), sym.Float64Grid("py", K)}
	sym.Freeze(line)
	sym.Freeze(p)
	useOrientationSummary()
	got := IsOnLine(lay, p, line)
	cs := make([]bool, 0, n)
	for i := 1; i < n; i++ {
		cs = append(cs, onSegment(p[0], p[1], line[(i-1)*stride], line[(i-1)*stride+1], line[i*stride], line[i*stride+1]))
	}
	sym.Assert(got == sym.Or(cs...), "IsOnLine is true exactly when the point lies on one of the segments")
	if n == 2 {
		a, b := geom.Coord(line[0:2]), geom.Coord(line[stride:stride+2])
		pil := lineintersector.PointIntersectsLine(lineintersector.RobustLineIntersector{}, p, a, b)
		sym.Assert(pil == cs[0], "PointIntersectsLine is the exact on-segment test")
	}
	sym.Cover("end")
}

var _ = sym.Register("HC11_OnLineTooShort", HC11_OnLineTooShort)

// fewer than two coordinates: the documented panic, nothing else
func HC11_OnLineTooShort() {
	p := geom.Coord{sym.Float64Grid("px", 10), sym.Float64Grid("py", 10)}
	line := []float64{sym.Float64Grid("l0", 10), sym.Float64Grid("l1", 10)}
	sym.Cover("end")
	sym.MayPanic(func() { IsOnLine(geom.XY, p, line) })
}
