package xy

import (
	geom "github.com/twpayne/go-geom"
	"github.com/twpayne/go-geom/internal/zzverif/sym"
)

// C13: the convex hull is the exact hull (domain X, integer grid; bigxy.OrientationIndex summarised by
// the sign of the exact determinant, justified by C10 for |v| <= 2^25 - here |v| <= 2^20).

func cross3(ax, ay, bx, by, cx, cy float64) float64 {
	return (bx-ax)*(cy-ay) - (by-ay)*(cx-ax)
}

// hullChecks asserts the property on the result g of a hull computation over the n input points.
func hullChecks(g geom.T, in []float64, n, stride int, lay geom.Layout) {
	xs := func(i int) (float64, float64) { return in[i*stride], in[i*stride+1] }
	// exact facts about the input
	same := make([]bool, 0, n)
	x0, y0 := xs(0)
	for i := 1; i < n; i++ {
		x, y := xs(i)
		same = append(same, sym.And(sym.FEq(x, x0), sym.FEq(y, y0)))
	}
	allCoincide := sym.And(same...)
	col := []bool{true}
	for i := 0; i < n; i++ {
		for j := i + 1; j < n; j++ {
			for k := j + 1; k < n; k++ {
				ax, ay := xs(i)
				bx, by := xs(j)
				cx, cy := xs(k)
				col = append(col, sym.FEq(cross3(ax, ay, bx, by, cx, cy), 0))
			}
		}
	}
	allCollinear := sym.And(col...)

	sym.Assert(g != nil, "a non-empty input has a hull")
	if g == nil {
		return
	}
	sym.Assert(g.Layout() == lay, "hull keeps the layout")
	flat := g.FlatCoords()
	m := len(flat) / stride
	isInput := func(j int) bool {
		cs := make([]bool, 0, n)
		for i := 0; i < n; i++ {
			eq := make([]bool, 0, stride)
			for k := 0; k < stride; k++ {
				eq = append(eq, sym.FEq(flat[j*stride+k], in[i*stride+k]))
			}
			cs = append(cs, sym.And(eq...))
		}
		return sym.Or(cs...)
	}
	switch h := g.(type) {
	case *geom.Point:
		sym.Tag("point")
		sym.Assert(allCoincide, "a Point hull only when all input points coincide")
		sym.Assert(m == 1 && isInput(0), "the Point hull is an input point (all ordinates)")
	case *geom.LineString:
		sym.Tag("line")
		sym.Assert(sym.And(allCollinear, sym.Not(allCoincide)), "a LineString hull only when the points are collinear and not all equal")
		sym.Assert(m == 2, "a collinear hull is a two-point line")
		if m != 2 {
			return
		}
		sym.Assert(sym.And(isInput(0), isInput(1)), "line hull vertices are input points (all ordinates)")
		ax, ay, bx, by := flat[0], flat[1], flat[stride], flat[stride+1]
		sym.Assert(sym.Not(sym.And(sym.FEq(ax, bx), sym.FEq(ay, by))), "line hull endpoints are distinct")
		cs := []bool{true}
		for i := 0; i < n; i++ {
			x, y := xs(i)
			cs = append(cs, onSegment(x, y, ax, ay, bx, by))
		}
		sym.Assert(sym.And(cs...), "every input point lies on the line hull (its ends are the extreme points)")
	case *geom.Polygon:
		sym.Tag("polygon")
		sym.Assert(sym.Not(allCollinear), "a Polygon hull only when the points are not all collinear")
		sym.Assert(h.NumLinearRings() == 1 && m >= 4, "one ring of at least three vertices plus the closing one")
		if h.NumLinearRings() != 1 || m < 4 {
			return
		}
		closed := make([]bool, 0, stride)
		for k := 0; k < stride; k++ {
			closed = append(closed, sym.FEq(flat[k], flat[(m-1)*stride+k]))
		}
		sym.Assert(sym.And(closed...), "the ring is closed")
		v := m - 1 // distinct vertices
		vin := []bool{true}
		for j := 0; j < v; j++ {
			vin = append(vin, isInput(j))
		}
		sym.Assert(sym.And(vin...), "every hull vertex is an input point in all ordinates")
		cw, ccw := []bool{true}, []bool{true}
		for j := 0; j < v; j++ {
			a, b, c := j, (j+1)%v, (j+2)%v
			t := cross3(flat[a*stride], flat[a*stride+1], flat[b*stride], flat[b*stride+1], flat[c*stride], flat[c*stride+1])
			cw = append(cw, sym.FLt(t, 0))
			ccw = append(ccw, sym.FLt(0, t))
		}
		isCW, isCCW := sym.And(cw...), sym.And(ccw...)
		sym.Assert(sym.Or(isCW, isCCW), "consistently oriented, no vertex collinear with its neighbours")
		out := []bool{true}
		for j := 0; j < v; j++ {
			a, b := j, (j+1)%v
			for i := 0; i < n; i++ {
				x, y := xs(i)
				t := cross3(flat[a*stride], flat[a*stride+1], flat[b*stride], flat[b*stride+1], x, y)
				out = append(out, sym.And(sym.Implies(isCW, sym.FLe(t, 0)), sym.Implies(isCCW, sym.FLe(0, t))))
			}
		}
		sym.Assert(sym.And(out...), "no input point lies outside the hull")
	default:
		sym.Assert(false, "hull is a Point, LineString or Polygon")
	}
}

func hullLayout() geom.Layout {
	return []geom.Layout{geom.XY, geom.XYZ, geom.XYM, geom.XYZM}[sym.Choose("lay", 0, sym.Pick(1, 3))]
}

var _ = sym.Register("HC13_Small", HC13_Small)

// HC13_Small: every multiset of 1..N symbolic grid points (duplicates and collinear runs arise from
// the symbolic equalities); sort.Sort, TreeSet, CoordStack, cleanRing run for real.
func HC13_Small() {
	N := sym.Param("N", 4) // 5 points: ~50x the paths, not run
	K := 20
	sym.Bound("points", N)
	sym.Bound("grid bits", K)
	n := sym.Choose("n", 1, N)
	lay := hullLayout()
	stride := lay.Stride()
	in := make([]float64, n*stride)
	for i := range in {
		in[i] = sym.Float64Grid(sym.N("c", i), K)
	}
	sym.Freeze(in)
	useOrientationSummary()
	g := ConvexHullFlat(lay, in)
	hullChecks(g, in, n, stride, lay)
	sym.Cover("end")
}

var _ = sym.Register("HC13_Geom", HC13_Geom)

// HC13_Geom: ConvexHull(geometry) is ConvexHullFlat of its coordinates; the geometry is not modified.
func HC13_Geom() {
	K := 20
	n := sym.Choose("n", 1, 3)
	in := make([]float64, n*2)
	for i := range in {
		in[i] = sym.Float64Grid(sym.N("c", i), K)
	}
	mp := geom.NewMultiPointFlat(geom.XY, in)
	sym.Freeze(mp)
	useOrientationSummary()
	g := ConvexHull(mp)
	hullChecks(g, in, n, 2, geom.XY)
	sym.Cover("end")
}

var _ = sym.Register("HC13_Large", HC13_Large)

// HC13_Large: more than 50 DISTINCT points (octagon reduction path: computeOctRing, IsPointInRing on
// the octagon, TreeSet, then sort and scan): 50 fixed lattice points plus 1|2 symbolic grid points
// anywhere in the range (inside, outside, on edges, coinciding with a lattice point).
func HC13_Large() {
	K := 20
	S := sym.Param("S", 1)
	sym.Bound("symbolic points", S)
	sym.Bound("points", 50+S)
	lay := []geom.Layout{geom.XY, geom.XYZ}[sym.Choose("lay", 0, 1)]
	stride := lay.Stride()
	var in []float64
	add := func(x, y float64) {
		in = append(in, x, y)
		for k := 2; k < stride; k++ {
			in = append(in, float64(len(in)))
		}
	}
	// 50 distinct lattice points: a 7x7 block plus one far corner point
	for i := 0; i < 7; i++ {
		for j := 0; j < 7; j++ {
			add(float64(3*i-9), float64(2*j-6))
		}
	}
	add(40, 25)
	for q := 0; q < S; q++ {
		if sym.Thorough() {
			add(sym.Float64Grid(sym.N("sx", q), K), sym.Float64Grid(sym.N("sy", q), K))
		} else {
			// quick: the symbolic point moves along one of three horizontal lines (through lattice rows,
			// between rows, above the block)
			add(sym.Float64Grid(sym.N("sx", q), K), []float64{0, 1, 9}[sym.Choose(sym.N("row", q), 0, 2)])
		}
	}
	n := len(in) / stride
	sym.Freeze(in)
	useOrientationSummary()
	useSignOfDetSummary()
	g := ConvexHullFlat(lay, in)
	hullChecksFast(g, in, n, stride, lay)
	sym.Cover("end")
}

// hullChecksFast: hullChecks without the cubic all-triples collinearity test (the 51+ point inputs
// are never all collinear).
func hullChecksFast(g geom.T, in []float64, n, stride int, lay geom.Layout) {
	p, ok := g.(*geom.Polygon)
	sym.Assert(ok, "hull of a non-collinear set is a Polygon")
	if !ok {
		return
	}
	flat := p.FlatCoords()
	m := len(flat) / stride
	sym.Assert(p.NumLinearRings() == 1 && m >= 4 && p.Layout() == lay, "one ring of at least three vertices plus the closing one")
	if m < 4 {
		return
	}
	xs := func(i int) (float64, float64) { return in[i*stride], in[i*stride+1] }
	closed := make([]bool, 0, stride)
	for k := 0; k < stride; k++ {
		closed = append(closed, sym.FEq(flat[k], flat[(m-1)*stride+k]))
	}
	sym.Assert(sym.And(closed...), "the ring is closed")
	v := m - 1
	vin := []bool{true}
	for j := 0; j < v; j++ {
		cs := make([]bool, 0, n)
		for i := 0; i < n; i++ {
			eq := make([]bool, 0, stride)
			for k := 0; k < stride; k++ {
				eq = append(eq, sym.FEq(flat[j*stride+k], in[i*stride+k]))
			}
			cs = append(cs, sym.And(eq...))
		}
		vin = append(vin, sym.Or(cs...))
	}
	sym.Assert(sym.And(vin...), "every hull vertex is an input point in all ordinates")
	cw, ccw := []bool{true}, []bool{true}
	for j := 0; j < v; j++ {
		a, b, c := j, (j+1)%v, (j+2)%v
		t := cross3(flat[a*stride], flat[a*stride+1], flat[b*stride], flat[b*stride+1], flat[c*stride], flat[c*stride+1])
		cw = append(cw, sym.FLt(t, 0))
		ccw = append(ccw, sym.FLt(0, t))
	}
	isCW, isCCW := sym.And(cw...), sym.And(ccw...)
	sym.Assert(sym.Or(isCW, isCCW), "consistently oriented, no vertex collinear with its neighbours")
	out := []bool{true}
	for j := 0; j < v; j++ {
		a, b := j, (j+1)%v
		for i := 0; i < n; i++ {
			x, y := xs(i)
			t := cross3(flat[a*stride], flat[a*stride+1], flat[b*stride], flat[b*stride+1], x, y)
			out = append(out, sym.And(sym.Implies(isCW, sym.FLe(t, 0)), sym.Implies(isCCW, sym.FLe(0, t))))
		}
	}
	sym.Assert(sym.And(out...), "no input point lies outside the hull")
}
