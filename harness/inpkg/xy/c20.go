package xy

import "github.com/twpayne/go-geom/internal/zzverif/sym"

var _ = sym.Register("HC20_Distance", HC20_Distance)

// HC20_Distance: distanceFromSegmentSquared(a, b, p) is the exact squared distance of p from the
// segment [a,b] for ALL real ordinates of the range (division-free specification), ordinates
// beyond X,Y ignored. This is the lemma that justifies the uninterpreted summary used by HC20_Worker.
func HC20_Distance() {
	K := 10
	sym.Bound("grid bits", K)
	extra := sym.Choose("extra ordinates", 0, 2)
	mk := func(name string) []float64 {
		c := make([]float64, 2+extra)
		for i := range c {
			c[i] = sym.Float64Grid(sym.N(name, i), K)
		}
		return c
	}
	a, b, p := mk("a"), mk("b"), mk("p")
	sym.Freeze(a)
	sym.Freeze(b)
	sym.Freeze(p)
	d := distanceFromSegmentSquared(a, b, p)
	dx, dy := b[0]-a[0], b[1]-a[1]
	den := dx*dx + dy*dy
	num := (p[0]-a[0])*dx + (p[1]-a[1])*dy
	da := (p[0]-a[0])*(p[0]-a[0]) + (p[1]-a[1])*(p[1]-a[1])
	db := (p[0]-b[0])*(p[0]-b[0]) + (p[1]-b[1])*(p[1]-b[1])
	cross := (p[0]-a[0])*dy - (p[1]-a[1])*dx
	sym.Assert(sym.FLe(0, d), "squared distance is non-negative")
	sym.Assert(sym.Implies(sym.Or(sym.FEq(den, 0), sym.FLe(num, 0)), sym.FEq(d, da)), "projection before the start (or zero-length chord): distance to a")
	sym.Assert(sym.Implies(sym.And(sym.Not(sym.FEq(den, 0)), sym.FLe(den, num)), sym.FEq(d, db)), "projection beyond the end: distance to b")
	sym.Assert(sym.Implies(sym.And(sym.Not(sym.FEq(den, 0)), sym.FLt(0, num), sym.FLt(num, den)), sym.FEq(d*den, cross*cross)), "projection inside: perpendicular distance, d*|ab|^2 = cross^2")
	sym.Cover("end")
}
