package xy

import (
	"math"

	geom "github.com/twpayne/go-geom"
	"github.com/twpayne/go-geom/internal/zzverif/sym"
)

// C14 (reduced): centroids, ring direction, signed area in exact / ideal arithmetic (domain X, grid
// |v| <= 10^5 ~ 2^17). Equalities of rational functions are decided by exact normalisation, sign facts
// by nlsat. bigxy.OrientationIndex summarised by the exact sign (C10).

const c14K = 17

func ringOf(prefix string, verts, stride int) []float64 { return closedRing(prefix, verts, stride, c14K) }

// shoelace2: twice the signed area, counter-clockwise positive.
func shoelace2(ring []float64, n, stride int) float64 {
	var s float64
	for i := 0; i+1 < n; i++ {
		s += ring[i*stride]*ring[(i+1)*stride+1] - ring[(i+1)*stride]*ring[i*stride+1]
	}
	return s
}

var _ = sym.Register("HC14_SignedArea", HC14_SignedArea)

func HC14_SignedArea() {
	V := sym.Pick(5, 6)
	sym.Bound("vertices", V)
	verts := sym.Choose("vertices", 1, V)
	lay := []geom.Layout{geom.XY, geom.XYZ, geom.XYZM}[sym.Choose("lay", 0, 2)]
	stride := lay.Stride()
	ring := ringOf("r", verts, stride)
	sym.Freeze(ring)
	got := SignedArea(lay, ring)
	if verts < 2 {
		sym.Assert(sym.FEq(got, 0), "fewer than three coordinates: zero")
	} else {
		sym.Assert(sym.FEq(2*got, -shoelace2(ring, verts+1, stride)), "SignedArea = -(shoelace sum)/2 exactly (clockwise positive)")
		sym.Assert(sym.IsExact(got), "every operation of SignedArea is exact on the grid")
	}
	sym.Cover("end")
}

var _ = sym.Register("HC14_RingDirection", HC14_RingDirection)

// HC14_RingDirection: triangles (any start vertex, either direction, repeated points allowed as long as
// the area is non-zero): counter-clockwise exactly when the exact signed area is positive.
func HC14_RingDirection() {
	lay := []geom.Layout{geom.XY, geom.XYZ}[sym.Choose("lay", 0, 1)]
	stride := lay.Stride()
	verts := 3 + sym.Choose("repeat", 0, 1) // optionally one repeated vertex
	base := ringOf("r", 3, stride)
	ring := base
	if verts == 4 {
		// repeat vertex k: v0..vk vk ..v2 v0
		k := sym.Choose("which", 0, 2)
		ring = nil
		for i := 0; i < 3; i++ {
			ring = append(ring, base[i*stride:(i+1)*stride]...)
			if i == k {
				ring = append(ring, base[i*stride:(i+1)*stride]...)
			}
		}
		ring = append(ring, base[:stride]...)
	}
	area2 := shoelace2(base, 4, stride)
	sym.Assume(sym.Not(sym.FEq(area2, 0)))
	sym.Freeze(ring)
	useOrientationSummary()
	got := IsRingCounterClockwise(lay, ring)
	sym.Assert(got == sym.FLt(0, area2), "counter-clockwise exactly when the exact signed area is positive")
	sym.Cover("end")
}

var _ = sym.Register("HC14_PointCentroid", HC14_PointCentroid)

func HC14_PointCentroid() {
	N := sym.Pick(4, 6)
	n := sym.Choose("n", 1, N)
	lay := []geom.Layout{geom.XY, geom.XYZ}[sym.Choose("lay", 0, 1)]
	stride := lay.Stride()
	flat := make([]float64, n*stride)
	for i := range flat {
		flat[i] = sym.Float64Grid(sym.N("c", i), c14K)
	}
	sym.Freeze(flat)
	c := PointsCentroidFlat(lay, flat)
	var sx, sy float64
	for i := 0; i < n; i++ {
		sx += flat[i*stride]
		sy += flat[i*stride+1]
	}
	sym.Assert(sym.And(sym.FEq(c[0]*float64(n), sx), sym.FEq(c[1]*float64(n), sy)), "point centroid is the arithmetic mean")
	c2 := MultiPointCentroid(geom.NewMultiPointFlat(lay, flat))
	sym.Assert(sym.And(sym.FEq(c2[0], c[0]), sym.FEq(c2[1], c[1])), "MultiPointCentroid agrees")
	sym.Cover("end")
}

var _ = sym.Register("HC14_LineCentroid", HC14_LineCentroid)

// HC14_LineCentroid: length-weighted mean of the segment midpoints; direction independent.
func HC14_LineCentroid() {
	N := 3 // 4 vertices (three square roots): the equality does not come back from nlsat
	n := sym.Choose("n", 2, N)
	lay := geom.XY
	flat := make([]float64, n*2)
	for i := range flat {
		flat[i] = sym.Float64Grid(sym.N("c", i), c14K)
	}
	var total, mx, my float64
	for i := 0; i+1 < n; i++ {
		dx, dy := flat[2*i+2]-flat[2*i], flat[2*i+3]-flat[2*i+1]
		l := math.Sqrt(dx*dx + dy*dy)
		total += l
		mx += l * (flat[2*i] + flat[2*i+2]) / 2
		my += l * (flat[2*i+1] + flat[2*i+3]) / 2
	}
	sym.Assume(sym.Not(sym.FEq(total, 0)))
	sym.Freeze(flat)
	c := LinesCentroid(geom.NewLineStringFlat(lay, flat))
	sym.Assert(sym.And(sym.FEq(c[0]*total, mx), sym.FEq(c[1]*total, my)), "line centroid is the length-weighted mean of the segment midpoints")
	sym.Cover("end")
}

var _ = sym.Register("HC14_PolygonCentroid", HC14_PolygonCentroid)

// HC14_PolygonCentroid: one shell without holes (triangle or quadrilateral, non-zero area, either
// direction, any start vertex): the centroid equals the shoelace centroid
//   Cx = sum (x_i + x_{i+1}) * cross_i / (3 * sum cross_i).
func HC14_PolygonCentroid() {
	verts := sym.Choose("vertices", 3, sym.Pick(4, 5))
	lay := []geom.Layout{geom.XY, geom.XYZ}[sym.Choose("lay", 0, 1)]
	stride := lay.Stride()
	ring := ringOf("r", verts, stride)
	a2 := shoelace2(ring, verts+1, stride)
	sym.Assume(sym.Not(sym.FEq(a2, 0)))
	var cx, cy float64
	for i := 0; i < verts; i++ {
		x0, y0, x1, y1 := ring[i*stride], ring[i*stride+1], ring[(i+1)*stride], ring[(i+1)*stride+1]
		cr := x0*y1 - x1*y0
		cx += (x0 + x1) * cr
		cy += (y0 + y1) * cr
	}
	sym.Freeze(ring)
	useOrientationSummary()
	poly := geom.NewPolygonFlat(lay, ring, []int{len(ring)})
	c := PolygonsCentroid(poly)
	sym.Assert(sym.And(sym.FEq(c[0]*3*a2, cx), sym.FEq(c[1]*3*a2, cy)), "polygon centroid equals the shoelace (area-weighted) centroid")
	sym.Cover("end")
}

var _ = sym.Register("HC14_PolygonWithHole", HC14_PolygonWithHole)

// HC14_PolygonWithHole: triangle shell and triangle hole in any combination of directions: the hole is
// SUBTRACTED whatever its winding: C = (|As|*Cs - |Ah|*Ch) / (|As| - |Ah|), stated per sign case so that
// each obligation is a polynomial identity.
func HC14_PolygonWithHole() {
	lay := geom.XY
	shell := ringOf("s", 3, 2)
	hole := ringOf("h", 3, 2)
	as2, ah2 := shoelace2(shell, 4, 2), shoelace2(hole, 4, 2)
	sym.Assume(sym.Not(sym.FEq(as2, 0)))
	sym.Assume(sym.Not(sym.FEq(ah2, 0)))
	moment := func(r []float64) (float64, float64) {
		var cx, cy float64
		for i := 0; i < 3; i++ {
			x0, y0, x1, y1 := r[i*2], r[i*2+1], r[(i+1)*2], r[(i+1)*2+1]
			cr := x0*y1 - x1*y0
			cx += (x0 + x1) * cr
			cy += (y0 + y1) * cr
		}
		return cx, cy
	}
	sx, sy := moment(shell)
	hx, hy := moment(hole)
	// harness-side case split (forks): signs of the two areas
	ss, hs := 1.0, 1.0
	if as2 < 0 {
		ss = -1
	}
	if ah2 < 0 {
		hs = -1
	}
	area := ss*as2 - hs*ah2 // |As2| - |Ah2|
	sym.Assume(sym.Not(sym.FEq(area, 0)))
	flat := append(append([]float64{}, shell...), hole...)
	sym.Freeze(flat)
	useOrientationSummary()
	poly := geom.NewPolygonFlat(lay, flat, []int{8, 16})
	c := PolygonsCentroid(poly)
	sym.Assert(sym.And(sym.FEq(c[0]*3*area, ss*sx-hs*hx), sym.FEq(c[1]*3*area, ss*sy-hs*hy)), "holes are subtracted whatever their winding: area-weighted centroid of shell minus hole")
	sym.Cover("end")
}
