package robustdeterminate

import "github.com/twpayne/go-geom/internal/zzverif/sym"

var _ = sym.Register("HC11_SignOfDet", HC11_SignOfDet)

// HC11_SignOfDet: SignOfDet2x2(x1,y1,x2,y2) = sign(x1*y2 - y1*x2) for all integer-valued arguments
// of the bound, the Euclid-like loop fully unrolled (integer solver variables, exact floor division).
func HC11_SignOfDet() {
	K := sym.Param("K", 3)
	sym.Bound("grid bits", K)
	x1, y1 := sym.Float64Grid("x1", K), sym.Float64Grid("y1", K)
	x2, y2 := sym.Float64Grid("x2", K), sym.Float64Grid("y2", K)
	got := SignOfDet2x2(x1, y1, x2, y2)
	det := x1*y2 - y1*x2
	sym.Assert(sym.And(
		sym.Implies(sym.FLt(0, det), got == Positive),
		sym.Implies(sym.FLt(det, 0), got == Negative),
		sym.Implies(sym.FEq(det, 0), got == Zero)), "SignOfDet2x2 is the sign of x1*y2 - y1*x2")
	sym.Cover("end")
}

// SpecFn is the specification of SignOfDet2x2 as a function value of the right type (used by the
// harness package as the summary).
func SpecFn() func(x1, y1, x2, y2 float64) Sign {
	return func(x1, y1, x2, y2 float64) Sign {
		d := x1*y2 - y1*x2
		if d > 0 {
			return Positive
		}
		if d < 0 {
			return Negative
		}
		return Zero
	}
}
