package igc

import (
	"time"

	"github.com/twpayne/go-geom/internal/zzverif/sym"
)

// C19 (reduced: record-level totality by induction over records). From an ARBITRARY parser state
// satisfying the invariant
//     35 <= bRecordLen <= MAX, and each extension window (lad, lod, tds) is empty (start == 0) or
//     35 <= start < stop <= bRecordLen          (MAX = 40 for parseB, 99 for parseI)
// and an arbitrary line, parseB and parseI never panic, keep the invariant, and append whole 5-tuples
// only. newParser() establishes the invariant, so no sequence of B and I records can make the fixed
// column indexing run out of bounds. time.Date is cut (it returns the zero Time): dates are outside
// this check, as are H records (regexp) and the stream layer (bufio).

func symLine(prefix string, n int) string {
	b := make([]byte, n)
	for i := range b {
		b[i] = sym.Byte(sym.N(prefix, i))
	}
	return string(b)
}

func window(name string, brl, max int) (int, int) {
	if sym.Flip(name + ".unset") {
		return 0, 0
	}
	a, b := sym.Int(name+".start", 35, max-1), sym.Int(name+".stop", 36, max)
	sym.Assume(sym.And(a < b, b <= brl))
	return a, b
}

func stateOK(p *parser) bool {
	w := func(a, b int) bool {
		return sym.Or(sym.And(a == 0, b == 0), sym.And(35 <= a, a < b, b <= p.bRecordLen))
	}
	return sym.And(35 <= p.bRecordLen, p.bRecordLen <= 99, w(p.ladStart, p.ladStop), w(p.lodStart, p.lodStop), w(p.tdsStart, p.tdsStop))
}

func arbitraryParser(max int) *parser {
	p := newParser()
	p.bRecordLen = sym.Int("bRecordLen", 35, max)
	p.ladStart, p.ladStop = window("lad", p.bRecordLen, max)
	p.lodStart, p.lodStop = window("lod", p.bRecordLen, max)
	p.tdsStart, p.tdsStop = window("tds", p.bRecordLen, max)
	p.year, p.month, p.day = 2000, 1, 1
	return p
}

func cutTime() {
	sym.Replace("time.Date", func(year int, month time.Month, day, hour, min, sec, nsec int, loc *time.Location) time.Time {
		return time.Time{}
	})
}

var _ = sym.Register("HC19_BRecord", HC19_BRecord)

func HC19_BRecord() {
	sym.Assert(stateOK(newParser()), "the initial parser state satisfies the invariant")
	p := arbitraryParser(40)
	// line lengths around the thresholds: too short, exactly 35, and long enough for any window <= 40
	n := []int{1, 34, 35, 37, 40}[sym.Choose("line length", 0, 4)]
	sym.Bound("B line bytes", 40)
	sym.Bound("bRecordLen", 40)
	line := "B" + symLine("b", n-1)
	cutTime()
	pre := *p
	before := len(p.coords)
	err := p.parseB(line)
	if err != nil {
		sym.Assert(len(p.coords) == before, "a rejected B record appends nothing")
		sym.Cover("rejected")
	} else {
		sym.Assert(len(p.coords) == before+5, "an accepted B record appends exactly one 5-tuple")
		sym.Cover("accepted")
	}
	// parseB does not touch the record layout at all (identical terms), hence keeps the invariant
	sym.Assert(sym.And(p.bRecordLen == pre.bRecordLen, p.ladStart == pre.ladStart, p.ladStop == pre.ladStop, p.lodStart == pre.lodStart,
		p.lodStop == pre.lodStop, p.tdsStart == pre.tdsStart, p.tdsStop == pre.tdsStop), "parseB keeps the parser invariant (record layout untouched)")
}

var _ = sym.Register("HC19_IRecord", HC19_IRecord)

func HC19_IRecord() {
	p := arbitraryParser(99)
	n := []int{1, 2, 3, 9, 10, 17}[sym.Choose("line length", 0, 5)]
	sym.Bound("I line bytes", 17)
	line := "I" + symLine("i", n-1)
	err := p.parseI(line)
	sym.Assert(stateOK(p), "parseI keeps the parser invariant (whether or not it reports an error)")
	if err == nil {
		sym.Cover("accepted")
	} else {
		sym.Cover("rejected")
	}
}
