package wkt

import (
	"strconv"
	"strings"

	geom "github.com/twpayne/go-geom"
	"github.com/twpayne/go-geom/internal/zzverif/sym"
)

// C18 (WKT part): decimal-digit limits. strconv.FormatFloat is environment: it is replaced by a model
// that checks it is called as FormatFloat(x, 'f', d, 64) and returns an ARBITRARY digit string of the
// shape it can return for that call, [-]D{1..3}.D{d} (no point when d == 0). Everything the encoder
// does with it (the real strings.TrimRight calls, the writes into the builder) is then checked for
// every such string. Natively (replay) x is the value of that digit string, for which the real
// FormatFloat returns exactly it (<= 15 significant digits).

type fmtModel struct {
	d     int
	calls int
	outs  []string
	xs    []float64
}

// digitString builds an arbitrary [-]D{1..3}[.D{d}] with symbolic digits.
func digitString(prefix string, d int, rich bool) string {
	var b []byte
	if rich && sym.Flip(prefix+".neg") {
		b = append(b, '-')
	}
	ni := 1
	if rich {
		ni = sym.Choose(prefix+".intdigits", 1, 3)
	}
	for i := 0; i < ni; i++ {
		c := sym.Byte(sym.N(prefix+".i", i))
		sym.Assume(sym.And(c >= '0', c <= '9'))
		if i == 0 && ni > 1 {
			sym.Assume(c != '0')
		}
		b = append(b, c)
	}
	if d > 0 {
		b = append(b, '.')
		for i := 0; i < d; i++ {
			c := sym.Byte(sym.N(prefix+".f", i))
			sym.Assume(sym.And(c >= '0', c <= '9'))
			b = append(b, c)
		}
	}
	return string(b)
}

func (m *fmtModel) install(n int, rich bool) {
	for i := 0; i < n; i++ {
		s := digitString(sym.N("num", i), m.d, rich || i == 0)
		m.outs = append(m.outs, s)
		x := 0.0
		if !sym.Symbolic() {
			x, _ = strconv.ParseFloat(s, 64)
		}
		m.xs = append(m.xs, x)
	}
	sym.Replace("strconv.FormatFloat", func(f float64, fmt byte, prec, bitSize int) string {
		sym.Assert(sym.And(fmt == 'f', prec == m.d, bitSize == 64), "FormatFloat is asked for 'f' format with the requested number of digits")
		i := m.calls
		m.calls++
		if i >= len(m.outs) {
			sym.Assert(false, "one FormatFloat call per ordinate")
			return "0"
		}
		return m.outs[i]
	})
}

// checkTrimmed: out is the digit string s trimmed as the property demands.
func checkTrimmed(out, s string, d int) {
	sym.Assert(len(out) >= 1 && len(out) <= len(s) && out == s[:len(out)], "emitted number is a prefix of the formatted one")
	if len(out) < 1 || len(out) > len(s) {
		return
	}
	rest := s[len(out):]
	cs := []bool{true}
	for i := 0; i < len(rest); i++ {
		cs = append(cs, sym.Or(rest[i] == '0', rest[i] == '.'))
	}
	sym.Assert(sym.And(cs...), "only trailing zeros (and then the point) are removed: the value is unchanged")
	dot := strings.IndexByte(s, '.')
	if dot >= 0 && len(out) > dot {
		// still has a fractional part
		sym.Assert(len(out) > dot+1, "no dangling decimal point")
		sym.Assert(out[len(out)-1] != '0', "no trailing zero after the decimal point")
		sym.Assert(len(out)-dot-1 <= d, "at most d fractional digits")
	}
	if dot >= 0 && len(out) <= dot {
		sym.Assert(len(out) == dot, "integer part kept whole when the fraction is all zeros")
	}
	if d == 0 {
		sym.Assert(out == s, "d = 0: nothing to trim")
	}
}

var _ = sym.Register("HC18_WriteCoord", HC18_WriteCoord)

func HC18_WriteCoord() {
	D := sym.Pick(6, 8)
	sym.Bound("max decimal digits", D)
	d := sym.Choose("d", 0, D)
	m := &fmtModel{d: d}
	n := sym.Choose("ordinates", 1, 2)
	m.install(n, true)
	e := NewEncoder(EncodeOptionWithMaxDecimalDigits(d))
	sb := &strings.Builder{}
	err := e.writeCoord(sb, m.xs)
	sym.Assert(err == nil, "writeCoord succeeds")
	got := sb.String()
	// split at the separators (digits, '-', '.' never equal a space)
	parts := splitStr(got, " ")
	sym.Assert(len(parts) == n && (m.calls == n || !sym.Symbolic()), "number of ordinates unchanged, one per input")
	if len(parts) == n {
		for i := range parts {
			checkTrimmed(parts[i], m.outs[i], d)
		}
	}
	sym.Cover("end")
}

var _ = sym.Register("HC18_Marshal", HC18_Marshal)

// HC18_Marshal: the surrounding WKT keeps type, structure and number of ordinates.
func HC18_Marshal() {
	d := sym.Choose("d", 0, 2)
	lay := []geom.Layout{geom.XY, geom.XYZ, geom.XYM, geom.XYZM}[sym.Choose("lay", 0, 3)]
	npts := 1 // two points square the path count
	m := &fmtModel{d: d}
	m.install(npts*lay.Stride(), false)
	var g geom.T
	if npts == 1 {
		g = geom.NewPointFlat(lay, m.xs)
	} else {
		g = geom.NewLineStringFlat(lay, m.xs)
	}
	got, err := Marshal(g, EncodeOptionWithMaxDecimalDigits(d))
	sym.Assert(err == nil, "Marshal succeeds")
	head := map[geom.Layout]string{geom.XY: "", geom.XYZ: "Z ", geom.XYM: "M ", geom.XYZM: "ZM "}[lay]
	kw := "POINT "
	if npts == 2 {
		kw = "LINESTRING "
	}
	pre := kw + head + "("
	sym.Assert(len(got) > len(pre)+1 && got[:len(pre)] == pre && got[len(got)-1] == ')', "keyword, dimension suffix and parentheses unchanged")
	if !(len(got) > len(pre)+1) {
		return
	}
	body := got[len(pre) : len(got)-1]
	pts := splitStr(body, ", ")
	sym.Assert(len(pts) == npts, "number of points unchanged")
	k := 0
	for _, p := range pts {
		ords := splitStr(p, " ")
		sym.Assert(len(ords) == lay.Stride(), "number of ordinates per point unchanged")
		for _, o := range ords {
			if k < len(m.outs) {
				checkTrimmed(o, m.outs[k], d)
			}
			k++
		}
	}
	sym.Cover("end")
}

// splitStr is strings.Split for the harness (byte-wise; strings.Split goes through assembly helpers).
func splitStr(s, sep string) []string {
	var out []string
	start := 0
	for i := 0; i+len(sep) <= len(s); {
		if s[i:i+len(sep)] == sep {
			out = append(out, s[start:i])
			i += len(sep)
			start = i
			continue
		}
		i++
	}
	return append(out, s[start:])
}
