package wkt

import (
	"math"
	"strconv"
	"strings"

	geom "github.com/twpayne/go-geom"
	"github.com/twpayne/go-geom/internal/zzverif/sym"
)

// C06 layer 1: the real goyacc parser, every grammar action, the validators of lex.go and the layout
// stack run on EVERY token sequence of length <= K over the whole token alphabet (28 keywords,
// EMPTY, NUM with an arbitrary float64 value, '(' ')' ','), followed by end of input. Only (*wktLex).Lex
// is replaced: it hands out the symbolic tokens. The parser's own table tests split the token space.

const lexFn = "(*github.com/twpayne/go-geom/encoding/wkt.wktLex).Lex"

var _ = sym.Register("HC06_Tokens", HC06_Tokens)

func wellFormedWKT(g geom.T, lay geom.Layout, top bool) bool {
	if g == nil {
		return false
	}
	if c, ok := g.(*geom.GeometryCollection); ok {
		for _, m := range c.Geoms() {
			if !wellFormedWKT(m, c.Layout(), false) {
				return false
			}
		}
		return true
	}
	if g.Stride() != g.Layout().Stride() || g.Stride() < 2 || g.Stride() > 4 {
		return false
	}
	if !top && g.Layout() != lay {
		return false // one dimensionality throughout
	}
	flat, stride := g.FlatCoords(), g.Stride()
	if len(flat)%stride != 0 {
		return false
	}
	ringOK := func(from, to int, ring bool) bool {
		n := (to - from) / stride
		if to < from || (to-from)%stride != 0 {
			return false
		}
		if n == 0 {
			return true
		}
		if !ring {
			return n >= 2
		}
		if n < 4 {
			return false
		}
		dims := 2
		if g.Layout().ZIndex() != -1 {
			dims = 3
		}
		cs := make([]bool, 0, dims)
		for k := 0; k < dims; k++ {
			cs = append(cs, sym.FEq(flat[from+k], flat[to-stride+k]))
		}
		return sym.And(cs...)
	}
	switch x := g.(type) {
	case *geom.Point:
		return len(flat) == 0 || len(flat) == stride
	case *geom.LineString:
		return ringOK(0, len(flat), false)
	case *geom.MultiPoint:
		off := 0
		for _, e := range x.Ends() {
			if e != off && e != off+stride {
				return false
			}
			off = e
		}
		return off == len(flat)
	case *geom.MultiLineString:
		off := 0
		for _, e := range x.Ends() {
			if !ringOK(off, e, false) {
				return false
			}
			off = e
		}
		return off == len(flat)
	case *geom.Polygon:
		off := 0
		ok := []bool{true}
		for _, e := range x.Ends() {
			ok = append(ok, ringOK(off, e, true))
			if e < off {
				return false
			}
			off = e
		}
		return off == len(flat) && sym.And(ok...)
	case *geom.MultiPolygon:
		off := 0
		ok := []bool{true}
		for _, ends := range x.Endss() {
			for _, e := range ends {
				ok = append(ok, ringOK(off, e, true))
				if e < off {
					return false
				}
				off = e
			}
		}
		return off == len(flat) && sym.And(ok...)
	}
	return false
}

func HC06_Tokens() {
	K := sym.Param("K", sym.Pick(8, 10))
	sym.Bound("tokens", K)
	n := sym.Choose("length", 0, K)
	sym.NoNaNInputs()
	var toks []int
	var vals []float64
	var l *wktLex
	next := func() (int, float64) {
		// the token is enumerated (33 choices per position; sequences die at the first syntax error)
		i := len(toks)
		k := sym.Choose(sym.N("tok", i), 0, 32)
		t := POINT + k
		switch k {
		case 30:
			t = '('
		case 31:
			t = ')'
		case 32:
			t = ','
		}
		v := 0.0
		if t == NUM {
			v = finite(sym.Float64Bits(sym.N("num", i)))
		}
		toks, vals = append(toks, t), append(vals, v)
		return t, v
	}
	if sym.Symbolic() {
		// tokens are drawn lazily, as the parser asks for them
		sym.Replace(lexFn, func(l *wktLex, yylval *wktSymType) int {
			if len(toks) >= n {
				return eof
			}
			t, v := next()
			yylval.coord = v
			return t
		})
		l = newWKTLex("")
		wktParse(l)
	} else {
		for len(toks) < n {
			next()
		}
		l = parseTokens(toks, vals)
	}
	if l.lastErr != nil {
		se, ok := l.lastErr.(*SyntaxError)
		sym.Assert(ok, "the error is a *SyntaxError")
		if ok {
			sym.Assert(se.lineNum >= 1 && se.linePos >= 0 && se.lineStart >= 0, "error position is sane")
		}
		sym.Cover("rejected")
		return
	}
	sym.Assert(l.ret != nil, "no error means a geometry")
	if l.ret == nil {
		return
	}
	sym.Assert(wellFormedWKT(l.ret, l.ret.Layout(), true), "accepted geometry: one dimensionality throughout, lines >= 2 points, rings closed with >= 4 points, offsets consistent")
	sym.Cover("accepted")
}

var _ = sym.Register("HC06_Shapes", HC06_Shapes)

// HC06_Shapes (derivation level, long inputs): LINESTRING / POLYGON / MULTILINESTRING / MULTIPOLYGON /
// POINT / MULTIPOINT with every dimension suffix, 1..2 parts of 1..5 points, first-point arity 1..5, at most
// one point of a different arity anywhere, arbitrary float64 ordinates (closure of a ring is decided by
// the parser on symbolic values): the input is ACCEPTED IF AND ONLY IF the arities fit the layout
// throughout, every line has >= 2 points and every ring >= 4 points and is closed.
func HC06_Shapes() {
	typ := sym.Choose("type", 0, 5) // 0 POINT 1 LINESTRING 2 POLYGON 3 MULTIPOINT 4 MULTILINESTRING 5 MULTIPOLYGON
	suf := sym.Choose("suffix", 0, 3) // none, M, Z, ZM
	a0 := sym.Choose("arity", 1, 5)
	maxPts := sym.Pick(5, 6)
	sym.Bound("points per part", maxPts)
	parts := 1
	if typ >= 2 && typ != 3 {
		parts = sym.Choose("parts", 1, 2)
	}
	npts := make([]int, parts)
	total := 0
	for i := range npts {
		if typ == 0 {
			npts[i] = 1
		} else if typ == 3 {
			npts[i] = sym.Choose(sym.N("n", i), 1, 3)
		} else {
			npts[i] = sym.Choose(sym.N("n", i), 1, maxPts)
		}
		total += npts[i]
	}
	odd := sym.Choose("odd point", -1, total-1) // never the first point: that one defines the arity
	if odd == 0 {
		odd = -1
	}
	a1 := a0
	if odd >= 0 {
		a1 = sym.Choose("odd arity", 1, 5)
		sym.Assume(a1 != a0)
	}
	// expected layout
	stride, dims := a0, 2
	okArity := a0 >= 2 && a0 <= 4
	switch suf {
	case 0:
		if a0 >= 3 {
			dims = 3
		}
	case 1:
		okArity = a0 == 3
	case 2:
		okArity, dims = a0 == 3, 3
	case 3:
		okArity, dims = a0 == 4, 3
	}
	// build the token list
	var toks []int
	var vals []float64
	sym.NoNaNInputs() // the lexer only produces finite numbers (ParseFloat range errors are lex errors)
	emit := func(t int) { toks = append(toks, t); vals = append(vals, 0) }
	num := func(name string) float64 {
		v := sym.Float64Bits(name)
		toks = append(toks, NUM)
		vals = append(vals, v)
		return v
	}
	emit([]int{POINT, LINESTRING, POLYGON, MULTIPOINT, MULTILINESTRING, MULTIPOLYGON}[typ] + suf)
	emit('(')
	if typ == 5 {
		emit('(')
	}
	closed := []bool{true}
	pt := 0
	for i := 0; i < parts; i++ {
		if i > 0 {
			emit(',')
		}
		if typ == 2 || typ == 4 || typ == 5 {
			emit('(')
		}
		var first, last []float64
		for j := 0; j < npts[i]; j++ {
			if j > 0 {
				emit(',')
			}
			ar := a0
			if pt == odd {
				ar = a1
			}
			c := make([]float64, ar)
			for k := range c {
				c[k] = num(sym.N("v", pt, k))
			}
			if j == 0 {
				first = c
			}
			last = c
			pt++
		}
		if (typ == 2 || typ == 5) && odd < 0 && okArity {
			for k := 0; k < dims; k++ {
				closed = append(closed, sym.FEq(first[k], last[k]))
			}
		}
		if typ == 2 || typ == 4 || typ == 5 {
			emit(')')
		}
	}
	if typ == 5 {
		emit(')')
	}
	emit(')')
	sizes := true
	for _, n := range npts {
		if (typ == 1 || typ == 4) && n < 2 {
			sizes = false
		}
		if (typ == 2 || typ == 5) && n < 4 {
			sizes = false
		}
	}
	expected := sym.And(okArity && odd < 0 && sizes, sym.And(closed...))
	l := parseTokens(toks, vals)
	if l.lastErr != nil {
		sym.Assert(sym.Not(expected), "a consistent, long enough, closed geometry is accepted")
		sym.Cover("rejected")
		return
	}
	sym.Assert(expected, "mixed arity / one-point line / short or unclosed ring is rejected")
	sym.Assert(l.ret != nil && l.ret.Stride() == stride && wellFormedWKT(l.ret, l.ret.Layout(), true), "accepted geometry is well formed with the expected stride")
	sym.Cover("accepted")
}

func finite(v float64) float64 {
	sym.Assume(sym.Not(sym.Or(sym.SameBits(v, math.Inf(1)), sym.SameBits(v, math.Inf(-1)))))
	return v
}

var tokenText = map[int]string{'(': "(", ')': ")", ',': ",", EMPTY: "EMPTY"}

// parseTokens runs the parser on a token sequence. Under the executor (*wktLex).Lex is replaced by a
// model that hands the tokens out; natively (replay of a counterexample) the tokens are rendered as
// text and go through the real lexer, which yields the same token sequence.
func parseTokens(toks []int, vals []float64) *wktLex {
	if sym.Symbolic() {
		pos := 0
		sym.Replace(lexFn, func(l *wktLex, yylval *wktSymType) int {
			if pos >= len(toks) {
				return eof
			}
			t := toks[pos]
			yylval.coord = vals[pos]
			pos++
			return t
		})
		l := newWKTLex("")
		wktParse(l)
		return l
	}
	var sb strings.Builder
	for i, t := range toks {
		if i > 0 {
			sb.WriteByte(' ')
		}
		switch {
		case t == NUM:
			sb.WriteString(strconv.FormatFloat(vals[i], 'g', -1, 64))
		case tokenText[t] != "":
			sb.WriteString(tokenText[t])
		default:
			for k, v := range keywordsMap {
				if v == t {
					sb.WriteString(k)
				}
			}
		}
	}
	l := newWKTLex(sb.String())
	wktParse(l)
	return l
}
