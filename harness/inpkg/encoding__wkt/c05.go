package wkt

import (
	"strings"

	geom "github.com/twpayne/go-geom"
	"github.com/twpayne/go-geom/internal/zzverif/sym"
)

// C05: WKT output round-trips through the library's own lexer + parser (both real), for every
// geometry tree of the bound with one uniform layout; spelling variants of the text parse to the same
// geometry. strconv is environment: FormatFloat(x,'f',-1,64) is replaced by a model that checks the
// call and returns a distinct digit-string placeholder per ordinate, ParseFloat maps a placeholder
// back to that ordinate (the shortest-round-trip contract of strconv), anything else is an error.

type numModel struct {
	xs []float64
}

func (m *numModel) install() {
	if !sym.Symbolic() {
		return // natively the real strconv is used
	}
	sym.Replace("strconv.FormatFloat", func(f float64, fmt byte, prec, bitSize int) string {
		sym.Assert(sym.And(fmt == 'f', prec == -1, bitSize == 64), "ordinates are formatted with FormatFloat(x,'f',-1,64)")
		m.xs = append(m.xs, f)
		return sym.Itoa(1000 + len(m.xs))
	})
	sym.Replace("strconv.ParseFloat", func(s string, bitSize int) (float64, error) {
		sym.Assert(bitSize == 64, "numbers are parsed as float64")
		n := 0
		for i := 0; i < len(s); i++ {
			if s[i] < '0' || s[i] > '9' {
				return 0, errNotPlaceholder
			}
			n = n*10 + int(s[i]-'0')
		}
		if n <= 1000 || n > 1000+len(m.xs) {
			return 0, errNotPlaceholder
		}
		return m.xs[n-1001], nil
	})
}

var errNotPlaceholder = &SyntaxError{problem: "not a placeholder"}

func finiteOrd(name string) float64 { return finite(sym.Float64Bits(name)) }

func coordsOf(prefix string, n, stride int) []float64 {
	out := make([]float64, n*stride)
	for i := range out {
		out[i] = finiteOrd(sym.N(prefix, i))
	}
	return out
}

// closedRingWKT: 4 points, the last repeating the first.
func closedRingWKT(prefix string, stride int) []float64 {
	r := coordsOf(prefix, 3, stride)
	return append(r, r[:stride]...)
}

// genWKT: an arbitrary WKT-expressible geometry in layout lay (lines of 0 or >= 2 points, closed rings of
// 4 points, EMPTY members anywhere, collections nested to depth).
func genWKT(prefix string, lay geom.Layout, depth int) geom.T {
	stride := lay.Stride()
	hi := 7
	if depth == 0 {
		hi = 6
	}
	switch sym.Choose(prefix+".type", 1, hi) {
	case 1:
		if sym.Flip(prefix + ".empty") {
			return geom.NewPointEmpty(lay)
		}
		return geom.NewPointFlat(lay, coordsOf(prefix+".c", 1, stride))
	case 2:
		n := []int{0, 2, 3}[sym.Choose(prefix+".n", 0, 2)]
		return geom.NewLineStringFlat(lay, coordsOf(prefix+".c", n, stride))
	case 3:
		rings := sym.Choose(prefix+".rings", 0, 2)
		var flat []float64
		var ends []int
		for i := 0; i < rings; i++ {
			flat = append(flat, closedRingWKT(sym.N(prefix+".r", i), stride)...)
			ends = append(ends, len(flat))
		}
		return geom.NewPolygonFlat(lay, flat, ends)
	case 4:
		n := sym.Choose(prefix+".members", 0, 2)
		var flat []float64
		ends := []int{}
		for i := 0; i < n; i++ {
			if !sym.Flip(sym.N(prefix+".mempty", i)) {
				flat = append(flat, coordsOf(sym.N(prefix+".m", i), 1, stride)...)
			}
			ends = append(ends, len(flat))
		}
		return geom.NewMultiPointFlat(lay, flat, geom.NewMultiPointFlatOptionWithEnds(ends))
	case 5:
		n := sym.Choose(prefix+".lines", 0, 2)
		var flat []float64
		var ends []int
		for i := 0; i < n; i++ {
			k := []int{0, 2}[sym.Choose(sym.N(prefix+".ln", i), 0, 1)]
			flat = append(flat, coordsOf(sym.N(prefix+".l", i), k, stride)...)
			ends = append(ends, len(flat))
		}
		return geom.NewMultiLineStringFlat(lay, flat, ends)
	case 6:
		n := sym.Choose(prefix+".polys", 0, 2)
		var flat []float64
		var endss [][]int
		for i := 0; i < n; i++ {
			var ends []int
			if !sym.Flip(sym.N(prefix+".pempty", i)) {
				flat = append(flat, closedRingWKT(sym.N(prefix+".p", i), stride)...)
				ends = append(ends, len(flat))
			}
			endss = append(endss, ends)
		}
		return geom.NewMultiPolygonFlat(lay, flat, endss)
	default:
		gc := geom.NewGeometryCollection()
		n := sym.Choose(prefix+".geoms", 0, 2)
		for i := 0; i < n; i++ {
			gc.MustPush(genWKT(sym.N(prefix+".g", i), lay, depth-1))
		}
		gc.MustSetLayout(lay) // an empty collection carries a fixed layout
		return gc
	}
}

func sameWKT(a, b geom.T) bool {
	if x, ok := a.(*geom.GeometryCollection); ok {
		y, ok := b.(*geom.GeometryCollection)
		if !ok || x.NumGeoms() != y.NumGeoms() || x.Layout() != y.Layout() {
			return false
		}
		cs := []bool{true}
		for i := 0; i < x.NumGeoms(); i++ {
			cs = append(cs, sameWKT(x.Geom(i), y.Geom(i)))
		}
		return sym.And(cs...)
	}
	same := false
	switch a.(type) {
	case *geom.Point:
		_, same = b.(*geom.Point)
	case *geom.LineString:
		_, same = b.(*geom.LineString)
	case *geom.Polygon:
		_, same = b.(*geom.Polygon)
	case *geom.MultiPoint:
		_, same = b.(*geom.MultiPoint)
	case *geom.MultiLineString:
		_, same = b.(*geom.MultiLineString)
	case *geom.MultiPolygon:
		_, same = b.(*geom.MultiPolygon)
	}
	if !same || a.Layout() != b.Layout() || len(a.FlatCoords()) != len(b.FlatCoords()) {
		return false
	}
	cs := []bool{true}
	fa, fb := a.FlatCoords(), b.FlatCoords()
	for i := range fa {
		cs = append(cs, sym.SameBits(fa[i], fb[i]))
	}
	ea, eb := a.Ends(), b.Ends()
	if len(ea) != len(eb) {
		return false
	}
	for i := range ea {
		if ea[i] != eb[i] {
			return false
		}
	}
	sa, sb := a.Endss(), b.Endss()
	if len(sa) != len(sb) {
		return false
	}
	for i := range sa {
		if len(sa[i]) != len(sb[i]) {
			return false
		}
		for j := range sa[i] {
			if sa[i][j] != sb[i][j] {
				return false
			}
		}
	}
	return sym.And(cs...)
}

// respell returns a standard spelling variant of the encoder's text.
func respell(text string, variant int) string {
	switch variant {
	case 1:
		return strings.ToLower(text)
	case 2: // generous whitespace incl. tabs and newlines, spaces around parentheses
		t := strings.ReplaceAll(text, " ", " \n\t ")
		t = strings.ReplaceAll(t, "(", " ( ")
		return "\n " + strings.ReplaceAll(t, ")", " ) ") + "\t\n"
	case 3: // CRLF line endings between tokens
		return strings.ReplaceAll(text, " ", "\r\n")
	case 4: // dimension suffix attached to the keyword
		t := text
		for _, kw := range []string{"POINT", "LINESTRING", "POLYGON", "COLLECTION"} {
			for _, suf := range []string{"ZM", "Z", "M"} {
				t = strings.ReplaceAll(t, kw+" "+suf+" ", kw+suf+" ")
			}
		}
		return t
	}
	return text
}

var _ = sym.Register("HC05_RoundTrip", HC05_RoundTrip)

func HC05_RoundTrip() {
	depth := 1 // thorough = quick: depth 2 squares the path count
	sym.Bound("collection depth", depth)
	lay := []geom.Layout{geom.XY, geom.XYZ, geom.XYM, geom.XYZM}[sym.Choose("lay", 0, 3)]
	sym.NoNaNInputs()
	g := genWKT("g", lay, depth)
	sym.Freeze(g)
	m := &numModel{}
	m.install()
	text, err := Marshal(g)
	sym.Assert(err == nil, "every WKT-expressible geometry is encoded")
	if err != nil {
		return
	}
	variant := sym.Choose("spelling", 0, 4)
	back, err := Unmarshal(respell(text, variant))
	sym.Assert(err == nil, "the encoder's text (in any standard spelling) is accepted by the library's parser")
	if err != nil {
		return
	}
	sym.Assert(sameWKT(g, back), "parsing the text returns the original geometry: type, dimensionality, structure incl. EMPTY members, every ordinate")
	sym.Cover("end")
}
