package lineintersector

import (
	geom "github.com/twpayne/go-geom"
	"github.com/twpayne/go-geom/internal/zzverif/sym"
	"github.com/twpayne/go-geom/xy/lineintersection"
	"github.com/twpayne/go-geom/xy/orientation"
)

// C12: segment intersection classified exactly (domain X, integer grid |v| <= 2^20).
// bigxy.OrientationIndex is summarised by the exact sign (C10). The computation of a proper crossing
// point (homogeneous coordinates, normalisation, central-endpoint fallback) is cut: `intersection` is
// replaced by an arbitrary point - its accuracy is outside this check; classification, endpoint
// copies and collinear overlaps are exact claims.

var _ = sym.Register("HC12_Classify", HC12_Classify)

func o2(a, b, c geom.Coord) float64 { return (b[0]-a[0])*(c[1]-a[1]) - (b[1]-a[1])*(c[0]-a[0]) }

func box(p, a, b geom.Coord) bool {
	return sym.And(
		sym.Or(sym.And(sym.FLe(a[0], p[0]), sym.FLe(p[0], b[0])), sym.And(sym.FLe(b[0], p[0]), sym.FLe(p[0], a[0]))),
		sym.Or(sym.And(sym.FLe(a[1], p[1]), sym.FLe(p[1], b[1])), sym.And(sym.FLe(b[1], p[1]), sym.FLe(p[1], a[1]))))
}

func samePt(p, q geom.Coord) bool { return sym.And(sym.FEq(p[0], q[0]), sym.FEq(p[1], q[1])) }

func HC12_Classify() {
	K := 20
	sym.Bound("grid bits", K)
	mk := func(n string) geom.Coord {
		return geom.Coord{sym.Float64Grid(n+".x", K), sym.Float64Grid(n+".y", K)}
	}
	a, b, c, d := mk("a"), mk("b"), mk("c"), mk("d")
	sym.Assume(sym.Not(samePt(a, b)))
	sym.Assume(sym.Not(samePt(c, d)))
	for _, p := range []geom.Coord{a, b, c, d} {
		sym.Freeze(p)
	}
	// variant: as given / segments swapped / first reversed / second reversed
	l1s, l1e, l2s, l2e := a, b, c, d
	switch sym.Choose("variant", 0, 3) {
	case 1:
		l1s, l1e, l2s, l2e = c, d, a, b
	case 2:
		l1s, l1e = b, a
	case 3:
		l2s, l2e = d, c
	}
	sym.Replace("github.com/twpayne/go-geom/bigxy.OrientationIndex", func(o, e, p geom.Coord) orientation.Type {
		t := o2(o, e, p)
		if t > 0 {
			return orientation.CounterClockwise
		}
		if t < 0 {
			return orientation.Clockwise
		}
		return orientation.Collinear
	})
	cand := geom.Coord{sym.Float64Grid("cand.x", K+1), sym.Float64Grid("cand.y", K+1)}
	sym.Replace("github.com/twpayne/go-geom/xy/lineintersector.intersection", func(data *lineIntersectorData, p1, p2, q1, q2 geom.Coord) geom.Coord {
		sym.Cover("proper")
		return cand
	})
	res := LineIntersectsLine(RobustLineIntersector{}, l1s, l1e, l2s, l2e)

	// exact reference on (a,b) x (c,d)
	o1, o2v, o3, o4 := o2(a, b, c), o2(a, b, d), o2(c, d, a), o2(c, d, b)
	inC, inD, inA, inB := sym.And(sym.FEq(o1, 0), box(c, a, b)), sym.And(sym.FEq(o2v, 0), box(d, a, b)), sym.And(sym.FEq(o3, 0), box(a, c, d)), sym.And(sym.FEq(o4, 0), box(b, c, d))
	meet := sym.Or(sym.And(sym.FLt(o1*o2v, 0), sym.FLt(o3*o4, 0)), inC, inD, inA, inB)
	allCol := sym.And(sym.FEq(o1, 0), sym.FEq(o2v, 0), sym.FEq(o3, 0), sym.FEq(o4, 0))
	// a collinear overlap is a proper segment iff two DISTINCT endpoints lie in the other segment
	type cnd struct {
		in bool
		p  geom.Coord
	}
	cs := []cnd{{inC, c}, {inD, d}, {inA, a}, {inB, b}}
	var pairs []bool
	for i := 0; i < 4; i++ {
		for j := i + 1; j < 4; j++ {
			pairs = append(pairs, sym.And(cs[i].in, cs[j].in, sym.Not(samePt(cs[i].p, cs[j].p))))
		}
	}
	overlap := sym.And(allCol, sym.Or(pairs...))

	typ := res.Type()
	sym.Assert(sym.And(
		sym.Implies(sym.Not(meet), typ == lineintersection.NoIntersection),
		sym.Implies(sym.And(meet, sym.Not(overlap)), typ == lineintersection.PointIntersection),
		sym.Implies(overlap, typ == lineintersection.CollinearIntersection)),
		"None / Point / Collinear exactly as exact arithmetic says, for either order and direction of the segments")
	sym.Assert(res.HasIntersection() == (typ != lineintersection.NoIntersection), "HasIntersection agrees with the type")
	pts := res.Intersection()
	isEndpoint := func(p geom.Coord) bool {
		return sym.Or(samePt(p, a), samePt(p, b), samePt(p, c), samePt(p, d))
	}
	switch typ {
	case lineintersection.NoIntersection:
		sym.Assert(len(pts) == 0, "no points reported without intersection")
	case lineintersection.PointIntersection:
		sym.Assert(len(pts) == 1, "one point reported")
		if len(pts) == 1 {
			touch := sym.Or(inA, inB, inC, inD)
			// endpoint meeting: exactly that endpoint, which lies on both segments
			sym.Assert(sym.Implies(touch, sym.And(isEndpoint(pts[0]),
				sym.FEq(o2(a, b, pts[0]), 0), box(pts[0], a, b), sym.FEq(o2(c, d, pts[0]), 0), box(pts[0], c, d))),
				"segments meeting at an endpoint: that endpoint is returned bit for bit")
			sym.Assert(sym.Implies(sym.Not(touch), samePt(pts[0], cand)), "proper crossing: the computed candidate is returned")
		}
	case lineintersection.CollinearIntersection:
		sym.Assert(len(pts) == 2, "two points reported for an overlap")
		if len(pts) == 2 {
			in0 := sym.And(isEndpoint(pts[0]), box(pts[0], a, b), box(pts[0], c, d))
			in1 := sym.And(isEndpoint(pts[1]), box(pts[1], a, b), box(pts[1], c, d))
			// every endpoint lying in the other segment lies between the two reported points
			hull := []bool{true}
			for _, x := range cs {
				hull = append(hull, sym.Implies(x.in, box(x.p, pts[0], pts[1])))
			}
			sym.Assert(sym.And(in0, in1, sym.Not(samePt(pts[0], pts[1])), sym.And(hull...)), "overlap: exactly the true overlap's two endpoints")
		}
	}
	sym.Cover("end")
}

var _ = sym.Register("HC12_NonRobust", HC12_NonRobust)

// HC12_NonRobust: on exactly representable inputs the non-robust strategy agrees on whether the
// segments intersect at all.
func HC12_NonRobust() {
	K := 10
	sym.Bound("grid bits", K)
	mk := func(n string) geom.Coord {
		return geom.Coord{sym.Float64Grid(n+".x", K), sym.Float64Grid(n+".y", K)}
	}
	a, b, c, d := mk("a"), mk("b"), mk("c"), mk("d")
	sym.Assume(sym.Not(samePt(a, b)))
	sym.Assume(sym.Not(samePt(c, d)))
	res := LineIntersectsLine(NonRobustLineIntersector{}, a, b, c, d)
	o1, o2v, o3, o4 := o2(a, b, c), o2(a, b, d), o2(c, d, a), o2(c, d, b)
	inC, inD, inA, inB := sym.And(sym.FEq(o1, 0), box(c, a, b)), sym.And(sym.FEq(o2v, 0), box(d, a, b)), sym.And(sym.FEq(o3, 0), box(a, c, d)), sym.And(sym.FEq(o4, 0), box(b, c, d))
	meet := sym.Or(sym.And(sym.FLt(o1*o2v, 0), sym.FLt(o3*o4, 0)), inC, inD, inA, inB)
	sym.Assert(res.HasIntersection() == meet, "non-robust strategy: intersects at all iff exact arithmetic says so")
	sym.Cover("end")
}
