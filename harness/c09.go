package h

import (
	"math"

	geom "github.com/twpayne/go-geom"
	"github.com/twpayne/go-geom/internal/zzverif/sym"
)

// C09: totality and structure of Area / Length (domain B/U: float arithmetic uninterpreted, so
// equalities proved here hold bit for bit in IEEE arithmetic by congruence).

var _ = register("HC09_TotalMultiPolygon", HC09_TotalMultiPolygon)

// refDoubleArea is the one-pass trapezoid reference over exactly the XY ordinates of a ring.
func refDoubleArea(flat []float64, off, end, stride int, acc float64) float64 {
	for i := off + stride; i < end; i += stride {
		acc += (flat[i+1] - flat[i+1-stride]) * (flat[i] + flat[i-stride])
	}
	return acc
}

func refLength(flat []float64, off, end, stride int, acc float64) float64 {
	for i := off + stride; i < end; i += stride {
		dx := flat[i] - flat[i-stride]
		dy := flat[i+1] - flat[i+1-stride]
		acc += math.Sqrt(dx*dx + dy*dy)
	}
	return acc
}

// HC09_TotalMultiPolygon: Area() and Length() never panic on a well-formed MultiPolygon and equal the
// left-to-right sum of the per-ring reference expressions.
func HC09_TotalMultiPolygon() {
	lay := AnyLayout("lay", Layouts)
	P, R, C := 3, 2, sym.Pick(2, 3)
	sym.Bound("polygons", P)
	sym.Bound("rings", R)
	sym.Bound("coords", C)
	g := MultiPolygonWF("g", lay, P, R, C)
	a := g.Area()
	l := g.Length()
	// structure: sum over polygons of (sum over rings of ring expression)
	flat, stride := g.FlatCoords(), g.Stride()
	var da, ln float64
	off := 0
	for _, ends := range g.Endss() {
		var pa, pl float64
		for _, e := range ends {
			var ra, rl float64
			ra = refDoubleArea(flat, off, e, stride, 0)
			rl = refLength(flat, off, e, stride, 0)
			pa += ra
			pl += rl
			off = e
		}
		da += pa
		ln += pl
	}
	sym.Assert(sym.SameBits(a, da/2), "Area = (sum of ring trapezoid sums)/2 over the XY ordinates")
	sym.Assert(sym.SameBits(l, ln), "Length = sum of segment lengths over the XY ordinates")
	sym.Cover("end")
}

var _ = register("HC09_TotalOthers", HC09_TotalOthers)

// HC09_TotalOthers: Polygon, MultiLineString, LineString, LinearRing, Point, MultiPoint.
func HC09_TotalOthers() {
	lay := AnyLayout("lay", Layouts)
	R, C := 3, sym.Pick(3, 4)
	sym.Bound("parts", R)
	sym.Bound("coords", C)
	switch Count("type", 0, 5) {
	case 0:
		g := PolygonWF("g", lay, R, C)
		a, l := g.Area(), g.Length()
		var da, ln float64
		off := 0
		for _, e := range g.Ends() {
			da += refDoubleArea(g.FlatCoords(), off, e, g.Stride(), 0)
			ln += refLength(g.FlatCoords(), off, e, g.Stride(), 0)
			off = e
		}
		sym.Assert(sym.SameBits(a, da/2), "Polygon area structure")
		sym.Assert(sym.SameBits(l, ln), "Polygon length structure")
		// additivity: sum of ring measures
		var sa, sl float64
		for i := 0; i < g.NumLinearRings(); i++ {
			sa += g.LinearRing(i).Area() * 2
			sl += g.LinearRing(i).Length()
		}
		sym.Assert(sym.SameBits(l, sl), "Polygon length is the sum of its rings' lengths")
		_ = sa
	case 1:
		g := MultiLineStringWF("g", lay, R, C)
		sym.Assert(sym.SameBits(g.Area(), 0), "lines have zero area")
		var ln, sl float64
		off := 0
		for i, e := range g.Ends() {
			ln += refLength(g.FlatCoords(), off, e, g.Stride(), 0)
			sl += g.LineString(i).Length()
			off = e
		}
		sym.Assert(sym.SameBits(g.Length(), ln), "MultiLineString length structure")
		sym.Assert(sym.SameBits(g.Length(), sl), "MultiLineString length is the sum of its parts")
	case 2:
		g := LineStringWF("g", lay, C+1)
		sym.Assert(sym.SameBits(g.Area(), 0), "lines have zero area")
		sym.Assert(sym.SameBits(g.Length(), refLength(g.FlatCoords(), 0, len(g.FlatCoords()), g.Stride(), 0)), "LineString length structure")
	case 3:
		g := LinearRingWF("g", lay, C+1)
		sym.Assert(sym.SameBits(g.Area(), refDoubleArea(g.FlatCoords(), 0, len(g.FlatCoords()), g.Stride(), 0)/2), "LinearRing area structure")
		sym.Assert(sym.SameBits(g.Length(), refLength(g.FlatCoords(), 0, len(g.FlatCoords()), g.Stride(), 0)), "LinearRing length structure")
	case 4:
		g := PointWF("g", lay)
		sym.Assert(sym.SameBits(g.Area(), 0) && sym.SameBits(g.Length(), 0), "points have zero area and length")
	case 5:
		g := MultiPointWF("g", lay, 3)
		sym.Assert(sym.SameBits(g.Area(), 0) && sym.SameBits(g.Length(), 0), "points have zero area and length")
	}
	sym.Cover("end")
}

var _ = geom.XY
