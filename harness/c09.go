package h

import (
	geom "github.com/twpayne/go-geom"
	"github.com/twpayne/go-geom/internal/zzverif/sym"
)

var _ = register("HC09_TotalMultiPolygon", HC09_TotalMultiPolygon)

// HC09_TotalMultiPolygon: Area() and Length() never panic on a well-formed MultiPolygon.
func HC09_TotalMultiPolygon() {
	lay := AnyLayout("lay", Layouts)
	P, R, C := sym.Pick(2, 3), 2, sym.Pick(2, 3)
	sym.Bound("polygons", P)
	sym.Bound("rings", R)
	sym.Bound("coords", C)
	g := MultiPolygonWF("g", lay, P, R, C)
	_ = g.Area()
	_ = g.Length()
	sym.Cover("end")
}

var _ = geom.XY
