package h

import "github.com/twpayne/go-geom/internal/zzverif/sym"

func register(name string, f func()) bool { return sym.Register(name, f) }
