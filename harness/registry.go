package h

// Registry maps harness names to functions for the native replay driver.
var Registry = map[string]func(){}

func register(name string, f func()) bool { Registry[name] = f; return true }
