package h

import (
	geom "github.com/twpayne/go-geom"
	"github.com/twpayne/go-geom/internal/zzverif/sym"
)

// C08: bounds are the tight per-dimension box.

// noNaN: kept as documentation of the precondition; the inputs are created under sym.NoNaNInputs().
func noNaN(flat []float64) {}

// anyGeom returns an arbitrary well-formed non-collection geometry of the given layout.
func anyGeom(prefix string, lay geom.Layout, maxCoords int) (geom.T, int) {
	switch Count(prefix+".type", 0, 6) {
	case 0:
		return PointWF(prefix, lay), 0
	case 1:
		return LineStringWF(prefix, lay, maxCoords), 1
	case 2:
		return LinearRingWF(prefix, lay, maxCoords), 1
	case 3:
		return PolygonWF(prefix, lay, 2, maxCoords/2), 2
	case 4:
		return MultiPointWF(prefix, lay, maxCoords), 2
	case 5:
		return MultiLineStringWF(prefix, lay, 2, maxCoords/2), 2
	default:
		return MultiPolygonWF(prefix, lay, 2, 2, maxCoords/4+1), 3
	}
}

// tightBox asserts that b is exactly the per-dimension min/max of the given coordinates.
func tightBox(b *geom.Bounds, flat []float64, stride int, label string) {
	n := 0
	if stride > 0 {
		n = len(flat) / stride
	}
	if n == 0 {
		sym.Assert(b.IsEmpty(), label+": no coordinates => empty bounds")
		return
	}
	for d := 0; d < stride; d++ {
		mn, mx := b.Min(d), b.Max(d)
		in := make([]bool, 0, 2*n)
		atMin := make([]bool, 0, n)
		atMax := make([]bool, 0, n)
		for i := 0; i < n; i++ {
			c := flat[i*stride+d]
			in = append(in, sym.FLe(mn, c), sym.FLe(c, mx))
			atMin = append(atMin, sym.FEq(mn, c))
			atMax = append(atMax, sym.FEq(mx, c))
		}
		sym.Assert(sym.And(in...), label+": every ordinate inside [Min,Max]")
		sym.Assert(sym.And(sym.Or(atMin...), sym.Or(atMax...)), label+": Min and Max are attained")
	}
	sym.Assert(!b.IsEmpty(), label+": non-empty geometry has non-empty bounds")
}

var _ = register("HC08_Tight", HC08_Tight)

func HC08_Tight() {
	sym.NoNaNInputs() // property C08 quantifies over geometries without NaN ordinates
	lay := AnyLayout("lay", Layouts)
	N := sym.Pick(4, 6)
	sym.Bound("coords", N)
	g, _ := anyGeom("g", lay, N)
	noNaN(g.FlatCoords())
	b := g.Bounds()
	sym.Assert(b.Layout() == lay, "bounds carry the geometry's layout")
	tightBox(b, g.FlatCoords(), g.Stride(), "Bounds()")
	sym.Cover("end")
}

// semantic dimension of ordinate index d in layout l: 0 X, 1 Y, 2 Z, 3 M, -1 other
func semDim(l geom.Layout, d int) int {
	switch {
	case d < 2:
		return d
	case d == l.ZIndex():
		return 2
	case d == l.MIndex():
		return 3
	}
	return -1
}

var c08Layouts = []geom.Layout{geom.XY, geom.XYZ, geom.XYM, geom.XYZM}

var _ = register("HC08_Extend", HC08_Extend)

// HC08_Extend: extending by geometries of mixed layouts is order independent and keeps Z with Z, M with M.
func HC08_Extend() {
	sym.NoNaNInputs() // property C08 quantifies over geometries without NaN ordinates
	K := sym.Pick(2, 3)
	sym.Bound("geometries", K)
	sym.Bound("coords per geometry", 2)
	k := Count("k", 1, K)
	gs := make([]geom.T, k)
	for i := range gs {
		gs[i] = LineStringWF(sym.N("g", i), AnyLayout(sym.N("lay", i), c08Layouts), 2)
		noNaN(gs[i].FlatCoords())
	}
	start := AnyLayout("start", []geom.Layout{geom.NoLayout, geom.XY, geom.XYZ, geom.XYM, geom.XYZM})
	fwd := geom.NewBounds(start)
	for i := 0; i < k; i++ {
		fwd.Extend(gs[i])
	}
	rev := geom.NewBounds(start)
	for i := k - 1; i >= 0; i-- {
		rev.Extend(gs[i])
	}
	sym.Assert(fwd.Layout() == rev.Layout(), "layout independent of extension order")
	if fwd.Layout() == rev.Layout() {
		for d := 0; d < fwd.Layout().Stride(); d++ {
			sym.Assert(sym.And(sym.SameBits(fwd.Min(d), rev.Min(d)), sym.SameBits(fwd.Max(d), rev.Max(d))), "bounds independent of extension order")
		}
	}
	// semantic reference: Z only with Z, M only with M
	L := fwd.Layout()
	hasZ, hasM := start.ZIndex() >= 0, start.MIndex() >= 0
	for _, g := range gs {
		hasZ = hasZ || g.Layout().ZIndex() >= 0
		hasM = hasM || g.Layout().MIndex() >= 0
	}
	sym.Assert((L.ZIndex() >= 0) == hasZ && (L.MIndex() >= 0) == hasM, "result layout has Z iff some input has Z, M iff some input has M")
	for d := 0; d < L.Stride(); d++ {
		sd := semDim(L, d)
		var in, atMin, atMax []bool
		for _, g := range gs {
			gl, st, flat := g.Layout(), g.Stride(), g.FlatCoords()
			for e := 0; e < st; e++ {
				if semDim(gl, e) != sd {
					continue
				}
				for i := 0; i+st <= len(flat); i += st {
					c := flat[i+e]
					in = append(in, sym.FLe(fwd.Min(d), c), sym.FLe(c, fwd.Max(d)))
					atMin = append(atMin, sym.FEq(fwd.Min(d), c))
					atMax = append(atMax, sym.FEq(fwd.Max(d), c))
				}
			}
		}
		if len(atMin) == 0 {
			sym.Assert(sym.FLt(fwd.Max(d), fwd.Min(d)), "dimension without data stays empty")
			continue
		}
		sym.Assert(sym.And(in...), "every ordinate of the same semantic dimension inside [Min,Max]")
		sym.Assert(sym.And(sym.Or(atMin...), sym.Or(atMax...)), "Min/Max attained by an ordinate of the same semantic dimension")
	}
	sym.Cover("end")
}

var _ = register("HC08_Collection", HC08_Collection)

// HC08_Collection: a collection's bounds cover every member, recursively.
func HC08_Collection() {
	sym.NoNaNInputs() // property C08 quantifies over geometries without NaN ordinates
	lay := AnyLayout("lay", c08Layouts)
	gc := geom.NewGeometryCollection()
	var flat []float64
	n := Count("n", 0, 2)
	for i := 0; i < n; i++ {
		var g geom.T
		switch Count(sym.N("mt", i), 0, 2) {
		case 0:
			g = PointWF(sym.N("m", i), lay)
		case 1:
			g = LineStringWF(sym.N("m", i), lay, 2)
		default:
			g = MultiPolygonWF(sym.N("m", i), lay, 1, 1, 2)
		}
		noNaN(g.FlatCoords())
		flat = append(flat, g.FlatCoords()...)
		gc.MustPush(g)
	}
	if sym.Flip("nested") {
		sym.Tag("nested-collection")
		inner := geom.NewGeometryCollection()
		g := LineStringWF("inner", lay, 2)
		noNaN(g.FlatCoords())
		flat = append(flat, g.FlatCoords()...)
		inner.MustPush(g)
		gc.MustPush(inner)
	}
	b := gc.Bounds()
	if len(flat) > 0 {
		sym.Assert(b.Layout() == lay, "collection bounds layout")
	}
	tightBox(b, flat, lay.Stride(), "GeometryCollection.Bounds()")
	sym.Cover("end")
}

var _ = register("HC08_Overlaps", HC08_Overlaps)

// HC08_Overlaps: box/box and box/point overlap agree with closed-interval arithmetic.
func HC08_Overlaps() {
	sym.NoNaNInputs() // property C08 quantifies over geometries without NaN ordinates
	lay := AnyLayout("lay", c08Layouts)
	st := lay.Stride()
	mk := func(p string) *geom.Bounds {
		mn, mx := make(geom.Coord, st), make(geom.Coord, st)
		for i := 0; i < st; i++ {
			mn[i], mx[i] = Ord(sym.N(p+".min", i)), Ord(sym.N(p+".max", i))
		}
		noNaN(mn)
		noNaN(mx)
		args := append(append([]float64{}, mn...), mx...)
		return geom.NewBounds(lay).Set(args...)
	}
	a, b := mk("a"), mk("b")
	ref := make([]bool, 0, 2*st)
	for i := 0; i < st; i++ {
		ref = append(ref, sym.FLe(a.Min(i), b.Max(i)), sym.FLe(b.Min(i), a.Max(i)))
	}
	sym.Assert(a.Overlaps(lay, b) == sym.And(ref...), "Overlaps == closed-interval intersection test")
	sym.Assert(a.Overlaps(lay, b) == b.Overlaps(lay, a), "Overlaps symmetric")
	pt := make(geom.Coord, st)
	for i := range pt {
		pt[i] = Ord(sym.N("pt", i))
	}
	noNaN(pt)
	pref := make([]bool, 0, 2*st)
	for i := 0; i < st; i++ {
		pref = append(pref, sym.FLe(a.Min(i), pt[i]), sym.FLe(pt[i], a.Max(i)))
	}
	sym.Assert(a.OverlapsPoint(lay, pt) == sym.And(pref...), "OverlapsPoint == closed-interval membership")
	// SetCoords normalises min/max
	q := make(geom.Coord, st)
	for i := range q {
		q[i] = Ord(sym.N("q", i))
	}
	noNaN(q)
	c := geom.NewBounds(lay).SetCoords(pt, q)
	for i := 0; i < st; i++ {
		sym.Assert(sym.And(sym.FLe(c.Min(i), pt[i]), sym.FLe(c.Min(i), q[i]), sym.FLe(pt[i], c.Max(i)), sym.FLe(q[i], c.Max(i)),
			sym.Or(sym.FEq(c.Min(i), pt[i]), sym.FEq(c.Min(i), q[i])), sym.Or(sym.FEq(c.Max(i), pt[i]), sym.FEq(c.Max(i), q[i]))), "SetCoords orders min/max per dimension")
	}
	// Polygon of the box
	if !a.IsEmpty() {
		poly := a.Polygon()
		sym.Assert(poly.Layout() == geom.XY && WellFormed(poly, 2) && poly.NumLinearRings() == 1 && len(poly.FlatCoords()) == 10, "Bounds.Polygon shape")
		pb := poly.Bounds()
		sym.Assert(sym.And(sym.FEq(pb.Min(0), a.Min(0)), sym.FEq(pb.Min(1), a.Min(1)), sym.FEq(pb.Max(0), a.Max(0)), sym.FEq(pb.Max(1), a.Max(1))), "Bounds.Polygon spans the box")
	}
	sym.Cover("end")
}
