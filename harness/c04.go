package h

import (
	geom "github.com/twpayne/go-geom"
	"github.com/twpayne/go-geom/encoding/ewkb"
	"github.com/twpayne/go-geom/encoding/wkb"
	"github.com/twpayne/go-geom/encoding/wkbcommon"
	"github.com/twpayne/go-geom/internal/zzverif/sym"
)

// C04: binary decoders are total, allocation-bounded and canonical on arbitrary bytes.

// WellFormedT checks any geometry (recursing into collections, depth-bounded by construction).
func WellFormedT(g geom.T) bool {
	switch x := g.(type) {
	case *geom.Point:
		return WellFormed(x, 0)
	case *geom.LineString:
		return WellFormed(x, 1)
	case *geom.LinearRing:
		return WellFormed(x, 1)
	case *geom.Polygon:
		return WellFormed(x, 2)
	case *geom.MultiPoint:
		return WellFormed(x, 2) && len(x.Ends()) == x.NumPoints()
	case *geom.MultiLineString:
		return WellFormed(x, 2)
	case *geom.MultiPolygon:
		return WellFormed(x, 3)
	case *geom.GeometryCollection:
		for _, m := range x.Geoms() {
			if m == nil || !WellFormedT(m) {
				return false
			}
		}
		return true
	}
	return false
}

// SameGeomT: same dynamic type, layout, structure, bits and SRID, recursively.
func SameGeomT(a, b geom.T) bool {
	switch x := a.(type) {
	case *geom.GeometryCollection:
		y, ok := b.(*geom.GeometryCollection)
		if !ok || x.NumGeoms() != y.NumGeoms() || x.Layout() != y.Layout() || x.SRID() != y.SRID() {
			return false
		}
		cs := make([]bool, x.NumGeoms())
		for i := range cs {
			cs[i] = SameGeomT(x.Geom(i), y.Geom(i))
		}
		return sym.And(cs...)
	case *geom.Point:
		if _, ok := b.(*geom.Point); !ok {
			return false
		}
	case *geom.LineString:
		if _, ok := b.(*geom.LineString); !ok {
			return false
		}
	case *geom.Polygon:
		if _, ok := b.(*geom.Polygon); !ok {
			return false
		}
	case *geom.MultiPoint:
		if _, ok := b.(*geom.MultiPoint); !ok {
			return false
		}
	case *geom.MultiLineString:
		if _, ok := b.(*geom.MultiLineString); !ok {
			return false
		}
	case *geom.MultiPolygon:
		if _, ok := b.(*geom.MultiPolygon); !ok {
			return false
		}
	default:
		return false
	}
	sa, sb := SnapOf(a), SnapOf(b)
	return sym.And(SameSnap(sa, sb), sym.EqInt(sa.SRID, sb.SRID))
}

// withinLimits: every count of the decoded geometry respects the configured limit of its level.
func withinLimits(g geom.T, lim [4]int) bool {
	ok := func(n, level int) bool { return sym.Or(lim[level] < 0, n <= lim[level]) }
	switch x := g.(type) {
	case *geom.Point:
		return true
	case *geom.LineString:
		return ok(x.NumCoords(), 1)
	case *geom.Polygon:
		cs := []bool{ok(x.NumLinearRings(), 2)}
		for i := 0; i < x.NumLinearRings(); i++ {
			cs = append(cs, ok(x.LinearRing(i).NumCoords(), 1))
		}
		return sym.And(cs...)
	case *geom.MultiPoint:
		return ok(x.NumPoints(), 1)
	case *geom.MultiLineString:
		cs := []bool{ok(x.NumLineStrings(), 2)}
		for i := 0; i < x.NumLineStrings(); i++ {
			cs = append(cs, ok(x.LineString(i).NumCoords(), 1))
		}
		return sym.And(cs...)
	case *geom.MultiPolygon:
		cs := []bool{ok(x.NumPolygons(), 3)}
		for i := 0; i < x.NumPolygons(); i++ {
			cs = append(cs, withinLimits(x.Polygon(i), lim))
		}
		return sym.And(cs...)
	case *geom.GeometryCollection:
		cs := []bool{true}
		for _, m := range x.Geoms() {
			cs = append(cs, withinLimits(m, lim))
		}
		return sym.And(cs...)
	}
	return false
}

func symBytes(prefix string, maxLen int) []byte {
	n := Count(prefix+".len", 0, maxLen)
	data := make([]byte, n)
	for i := range data {
		data[i] = sym.Byte(sym.N(prefix, i))
	}
	return data
}

func maxInt(a, b int) int { return sym.IteInt(a > b, a, b) }

// setLimits installs symbolic per-level limits. enabled: all three levels are limits in 0..3;
// otherwise a symbolically chosen subset is disabled (-1) and allocations that the input cannot
// back are cut (the property's own carve-out).
func setLimits(enabled bool) [4]int {
	var lim [4]int
	for l := 1; l <= 3; l++ {
		if enabled {
			lim[l] = sym.Int(sym.N("limit", l), 0, 3)
		} else {
			lim[l] = sym.Int(sym.N("limit", l), -1, 2)
		}
		wkbcommon.MaxGeometryElements[l] = lim[l]
	}
	if enabled {
		m := maxInt(lim[1], maxInt(lim[2], lim[3]))
		// every make() in the decoders: element count <= 32*max(limit)+64 (floats: limit*stride,
		// byte buffers: 8*limit*stride); a forged 32-bit count is unconstrained and would exceed it
		sym.AllocLimit(32*m + 64)
	}
	return lim
}

func checkDecoded(g geom.T, err error, lim [4]int, reencode func(geom.T) ([]byte, error), decode func([]byte) (geom.T, error)) {
	if err != nil {
		if tl, ok := err.(wkbcommon.ErrGeometryTooLarge); ok {
			sym.Assert(tl.Level >= 1 && tl.Level <= 3, "too-large error names a level")
			if tl.Level >= 1 && tl.Level <= 3 {
				sym.Assert(sym.And(tl.Limit == lim[tl.Level], tl.Limit >= 0, tl.N > tl.Limit), "too-large error reports N > Limit of its level")
			}
			sym.Cover("too-large")
		}
		sym.Assert(g == nil, "no geometry together with an error")
		sym.Cover("error")
		return
	}
	sym.Assert(g != nil, "geometry or error")
	if g == nil {
		return
	}
	sym.Assert(WellFormedT(g), "decoded geometry is well formed")
	sym.Assert(withinLimits(g, lim), "decoded geometry respects every configured limit")
	b2, err2 := reencode(g)
	if err2 != nil {
		// only empty points in strict WKB mode cannot be re-encoded; those are never produced by that decoder
		sym.Assert(false, "decoded geometry can be re-encoded")
		return
	}
	g2, err3 := decode(b2)
	sym.Assert(err3 == nil, "re-encoded bytes decode")
	if err3 == nil {
		sym.Assert(SameGeomT(g, g2), "decode(encode(g)) equals g")
	}
	sym.Cover("decoded")
}

var _ = register("HC04_WKB", HC04_WKB)

func HC04_WKB() {
	L := sym.Pick(18, 22)
	sym.Bound("input bytes", L)
	lim := setLimits(true)
	data := symBytes("b", L)
	nan := sym.Flip("nanmode")
	var opts []wkbcommon.WKBOption
	if nan {
		opts = append(opts, wkbcommon.WKBOptionEmptyPointHandling(wkbcommon.EmptyPointHandlingNaN))
	}
	g, err := wkb.Unmarshal(data, opts...)
	checkDecoded(g, err, lim,
		func(g geom.T) ([]byte, error) { return wkb.Marshal(g, wkb.NDR, opts...) },
		func(b []byte) (geom.T, error) { return wkb.Unmarshal(b, opts...) })
}

var _ = register("HC04_EWKB", HC04_EWKB)

func HC04_EWKB() {
	L := sym.Pick(18, 22)
	sym.Bound("input bytes", L)
	lim := setLimits(true)
	data := symBytes("b", L)
	g, err := ewkb.Unmarshal(data)
	checkDecoded(g, err, lim,
		func(g geom.T) ([]byte, error) { return ewkb.Marshal(g, ewkb.XDR) },
		func(b []byte) (geom.T, error) { return ewkb.Unmarshal(b) })
}

var _ = register("HC04_Polygon", HC04_Polygon)

// HC04_Polygon: longer inputs for the nested count handling: the first five bytes are fixed to a
// little-endian XY Polygon (WKB) or Polygon/MultiLineString-free EWKB header, the following L bytes
// are arbitrary (ring count, per-ring point counts, ordinates, truncation anywhere).
func HC04_Polygon() {
	L := sym.Pick(40, 56)
	sym.Bound("input bytes after the 5-byte header", L)
	lim := setLimits(true)
	body := symBytes("b", L)
	data := append([]byte{1, 3, 0, 0, 0}, body...)
	isEWKB := sym.Flip("ewkb")
	if isEWKB {
		g, err := ewkb.Unmarshal(data)
		checkDecoded(g, err, lim,
			func(g geom.T) ([]byte, error) { return ewkb.Marshal(g, ewkb.NDR) },
			func(b []byte) (geom.T, error) { return ewkb.Unmarshal(b) })
		return
	}
	g, err := wkb.Unmarshal(data)
	checkDecoded(g, err, lim,
		func(g geom.T) ([]byte, error) { return wkb.Marshal(g, wkb.NDR) },
		func(b []byte) (geom.T, error) { return wkb.Unmarshal(b) })
}
