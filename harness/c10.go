package h

import (
	geom "github.com/twpayne/go-geom"
	"github.com/twpayne/go-geom/bigxy"
	"github.com/twpayne/go-geom/internal/zzverif/sym"
	"github.com/twpayne/go-geom/xy"
	"github.com/twpayne/go-geom/xy/orientation"
)

// C10: orientation predicate = sign of the exact determinant (domain X; integer-valued ordinates).
// Every float64 operation of the filter is either proved exact (result fits in 53 bits), rounded
// with the exact RN model (integer-valued results beyond 2^53), or enclosed by the (1+d) model (the
// multiplication by dpSafeEpsilon); math/big.Float runs in the precision-tracking model.

func gridCoord(name string, k, extra int) geom.Coord {
	c := make(geom.Coord, 2+extra)
	for i := range c {
		c[i] = sym.Float64Grid(sym.N(name, i), k)
	}
	return c
}

// exactSign: sign of (e-o) x (p-o) in exact integer arithmetic as -1/0/1 (non-forking).
func exactDet(o, e, p geom.Coord) float64 {
	return (e[0]-o[0])*(p[1]-o[1]) - (e[1]-o[1])*(p[0]-o[0])
}

func signIs(det float64, got orientation.Type) bool {
	return sym.And(
		sym.Implies(sym.FLt(0, det), got == orientation.CounterClockwise),
		sym.Implies(sym.FLt(det, 0), got == orientation.Clockwise),
		sym.Implies(sym.FEq(det, 0), got == orientation.Collinear))
}

var _ = register("HC10_Exact", HC10_Exact)

func HC10_Exact() {
	G := sym.Param("G", sym.Pick(25, 25))
	sym.Bound("grid bits", G)
	extra := sym.Choose("extra ordinates", 0, 1)
	o, e, p := gridCoord("o", G, extra), gridCoord("e", G, extra), gridCoord("p", G, extra)
	sym.Freeze(o)
	sym.Freeze(e)
	sym.Freeze(p)
	got := bigxy.OrientationIndex(o, e, p)
	sym.Assert(signIs(exactDet(o, e, p), got), "OrientationIndex is the sign of the exact determinant")
	sym.Assert(got == xy.OrientationIndex(o, e, p), "xy.OrientationIndex agrees with bigxy.OrientationIndex")
	sym.Cover("end")
}

var _ = register("HC10_Symmetry", HC10_Symmetry)

// HC10_Symmetry: antisymmetric under exchanging two arguments, invariant under cyclic rotation.
func HC10_Symmetry() {
	G := sym.Param("G", sym.Pick(25, 25))
	sym.Bound("grid bits", G)
	o, e, p := gridCoord("o", G, 0), gridCoord("e", G, 0), gridCoord("p", G, 0)
	a := bigxy.OrientationIndex(o, e, p)
	switch sym.Choose("which", 0, 2) {
	case 0:
		b := bigxy.OrientationIndex(e, o, p)
		sym.Assert(int(a) == -int(b), "antisymmetric under exchanging two arguments")
	case 1:
		c := bigxy.OrientationIndex(e, p, o)
		sym.Assert(a == c, "invariant under cyclic rotation (e,p,o)")
	default:
		d := bigxy.OrientationIndex(p, o, e)
		sym.Assert(a == d, "invariant under cyclic rotation (p,o,e)")
	}
	sym.Cover("end")
}

var _ = register("HC10_Search", HC10_Search)

// HC10_Search: beyond 2^25 the products exceed 53 bits; with the exact rounding model the query
// becomes a search for a triple on which the returned sign is wrong.
func HC10_Search() {
	G := sym.Param("G", sym.Pick(27, 29))
	sym.Bound("grid bits", G)
	o, e, p := geom.Coord{0, 0}, gridCoord("e", G, 0), gridCoord("p", G, 0) // origin fixed at (0,0)
	// over-approximation of the filter: "undecided" on every input, so that only the extended-precision
	// fallback is searched; a model is then confirmed natively against the real filter + fallback.
	sym.Replace("github.com/twpayne/go-geom/bigxy.orientationIndexFilter", func(a, b, c geom.Coord) orientation.Type { return 2 })
	got := bigxy.OrientationIndex(o, e, p)
	sym.Assert(signIs(exactDet(o, e, p), got), "OrientationIndex is the sign of the exact determinant")
	sym.Cover("end")
}

// useOrientationSummaryH: bigxy.OrientationIndex replaced by the sign of the exact determinant (C10).
func useOrientationSummaryH() {
	sym.Replace("github.com/twpayne/go-geom/bigxy.OrientationIndex", func(o, e, p geom.Coord) orientation.Type {
		d := exactDet(o, e, p)
		if d > 0 {
			return orientation.CounterClockwise
		}
		if d < 0 {
			return orientation.Clockwise
		}
		return orientation.Collinear
	})
}
