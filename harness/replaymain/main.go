// Native replay driver: runs one harness on the inputs of a replay file.
package main

import (
	"fmt"
	"os"
	"sync"

	_ "github.com/twpayne/go-geom/encoding/geojson"
	_ "github.com/twpayne/go-geom/encoding/igc"
	_ "github.com/twpayne/go-geom/encoding/wkt"
	_ "github.com/twpayne/go-geom/internal/zzverif/h"
	"github.com/twpayne/go-geom/internal/zzverif/sym"
)

func main() {
	if len(os.Args) < 2 {
		fmt.Println("usage: replay <file.json>")
		os.Exit(2)
	}
	name := sym.Load(os.Args[1])
	f, ok := sym.Registry[name]
	if !ok {
		fmt.Println("SYM-ERROR unknown harness", name)
		os.Exit(3)
	}
	if os.Getenv("SYM_CONCURRENT") != "" {
		// confirmation of a "write to package-level state" finding: the same call from several goroutines
		// at once, under the race detector (the binary is built with -race for this mode)
		sym.SetConcurrent()
		var wg sync.WaitGroup
		for i := 0; i < 4; i++ {
			wg.Add(1)
			go func() {
				defer wg.Done()
				defer func() { recover() }()
				for k := 0; k < 50; k++ {
					f()
				}
			}()
		}
		wg.Wait()
		fmt.Println("SYM-CONCURRENT-DONE", name)
		return
	}
	defer func() {
		if r := recover(); r != nil {
			sym.CheckAlloc()
			if sym.Failed() {
				fmt.Println("SYM-PANIC after failed assertion:", r)
				os.Exit(17)
			}
			panic(r)
		}
	}()
	f()
	sym.CheckAlloc()
	sym.CheckFrozen()
	if sym.Failed() {
		os.Exit(17)
	}
	fmt.Println("SYM-PASSED", name)
}
