#!/usr/bin/env python3
"""Regenerates MANIFEST.json from the table below (kept in one place so it stays valid)."""
import json

TECH = "bounded symbolic execution of the real Go SSA (own go/ssa executor) + SMT (z3): each obligation decided by a solver query over all inputs in the bound; counterexamples replayed natively"
LEVEL_NOTE_COMMON = ("Trusted base: go/ssa + the gosym interpreter's instruction semantics (cross-checked by native replay of every counterexample and by `./check selftest`), z3. "
 "Holds for all values INSIDE the stated bounds only (bounds and cut paths are in the evidence file); nothing is claimed outside them. ")

checks = {
 "C01": ("SetCoords/Coords/New*Flat of all seven types: for every nested-coordinate shape within the bound (line <=4|6 coords; polygon/multilinestring <=2x2|3x3; multipoint <=4|5 incl. nil members; multipolygon <=2x2x1 and 3x1x1 | 3x2x2), every layout in {NoLayout(empty only),XY,XYZ,XYM,XYZM,Layout(5),Layout(6)}, every float64 bit pattern and at most one coordinate of wrong length 0..7: result well formed (independent predicate over public accessors), Coords() returns the input bit for bit, first offender rejected with ErrStrideMismatch{Got,Want}.",
         "Shapes are enumerated by forking on symbolic shape variables; ordinates stay symbolic 64-bit patterns (NaN payloads, infinities, -0, denormals are all inside one path). Decoder outputs are checked against the same predicate in the C03-C07 checks.", "6.C01"),
 "C02": ("One inductive Push step from an ARBITRARY well-formed pre-state (multipolygon <=2|3 polygons x <=2 rings x <=2 coords, empty polygons as nil or empty rows; polygon/multilinestring <=3|4 parts; multipoint <=3|5 members incl. empty) with an arbitrary well-formed part: count+1, earlier part accessors bit-identical, new part equals pushed part, well-formedness re-established, Coords = Coords ++ [part]; wrong layout => ErrLayoutMismatch{Got,Want} and unchanged receiver; Reverse reverses each part only; Swap exchanges everything; GeometryCollection Push/SetLayout.",
         "Induction over histories: base case (constructors) + step from any well-formed state covers every finite Push history whose states stay inside the size bound.", "6.C02"),
 "C03": ("wkb.Marshal / ewkb.Marshal compared BYTE FOR BYTE with an independent reference encoder written from the ISO WKB / PostGIS EWKB layouts (own byte extraction, own type-code arithmetic), then decoded back and compared (type, layout, ends/endss, every ordinate bit, SRID): every geometry tree within the bound - 6 basic types (<=2 parts x <=2|3 coords, empty rings/lines/polygons, empty points and empty multipoint members) and collections of <=2 members nested to depth 1|2 mixing layouts, empty collections with and without a fixed layout - x {NDR,XDR} x 4 layouts x strict/NaN empty-point mode x SRID any uint32 (symbolic; member SRIDs in thorough) x every float64 bit pattern. Streams: a writer that starts failing after k bytes for EVERY k reports that error and has written only a prefix; a reader that splits the bytes (first 5 calls each 1, 2 or all requested bytes, then 1 or all) yields the same geometries one after the other and ends exactly at the end. Hex = lower-case hex of the binary form and decodes back (concrete ordinate patterns); every typed sql wrapper: Value() = NDR encoding, Scan accepts exactly its own type, non-[]byte source is an error; Layout(5..6)/NoLayout => ErrUnsupportedLayout.",
         "Carve-outs of the property are assumptions of the harness (all-canonical-NaN point = empty point; layout-less empty collection decodes with the layout of its type code). Trees wider/deeper than the bound and other reader split patterns are outside the claim.", "6.C03"),
 "C04": ("wkb.Unmarshal (strict and NaN empty-point mode) and ewkb.Unmarshal on EVERY byte string of symbolic length <=18|30 with symbolic per-level limits MaxGeometryElements[1..3] in 0..3: no panic site reachable; every make() in the decoders has an element count bounded by a linear function of the configured limits (a forged 32-bit count can never reach an allocation: it is rejected with ErrGeometryTooLarge{Level,N,Limit} first); every successful result is well formed, respects every limit, re-encodes, and decode(encode(g)) equals g.",
         "The type word, counts, byte order flag and all ordinates are symbolic bytes; the decoder's own switches split the space. Inputs longer than the bound and total heap accounting are outside the claim; the limits-disabled carve-out of the property is not exercised (limits always enabled).", "6.C04"),
 "C08": ("Bounds()/Extend/GeometryCollection.Bounds/Overlaps/OverlapsPoint/SetCoords/Polygon for every non-NaN float64 (order-code domain K: exact for comparison, min, max, +-Inf, +-0): per-dimension containment and attainment, empty <=> no coordinates, Extend order independence and Z-with-Z/M-with-M over <=2|3 geometries of mixed XY/XYZ/XYM/XYZM, nested collections.",
         "Domain K represents each non-NaN float64 by its order code (an integer); this is a bijection, so the verdict covers every non-NaN bit pattern. Geometries <=4|6 coordinates.", "6.C08"),
 "C09": ("Totality of Area/Length on every well-formed geometry within the bound (incl. empty polygons/rings anywhere, all layouts) and structural identity: Area/Length are bit-identical to the one-pass reference expression over exactly the XY ordinates (float arithmetic uninterpreted => equality holds in IEEE arithmetic by congruence); multi = sum of parts; points and lines have zero area.",
         "Reduced claim: the forward rounding-error bound of the property is NOT decided (FP multiplication is out of reach of the solvers, DESIGN.md s.1); it follows from the structural identity by the textbook summation lemma.", "6.C09"),
 "C16": ("Clone of all nine cloneable types on arbitrary well-formed geometries: equal in layout, stride, SRID, nil-ness, lengths and every bit; no backing array (flat, ends, every endss row, bounds min/max) is the same heap object as the original's; writes/Push/Reverse on either side invisible through the other (also with spare capacity).",
         "Sharing is decided on heap-object identity inside the executor, which covers every later mutation sequence, not only the ones executed.", "6.C16"),
 "C20": ("xy.SimplifyFlatCoords, modular: (1) lemma HC20_Distance - the unexported distanceFromSegmentSquared equals the exact squared point-segment distance (division-free specification, three projection cases, extra ordinates ignored) for ALL REAL ordinates in [-2^10,2^10] (superset of the integer grid), decided by z3's nlsat; (2) HC20_Worker - with that function replaced by an uninterpreted D(p;a,b)>=0, every sequence of n<=6|7 points, stride 2,3(,5), every threshold k/4 in [0,2048] or 0: returned indexes strictly increase, contain 0 and n-1, every omitted point has D<=threshold^2 w.r.t. its retained neighbours (threshold 0: D=0, i.e. exactly on the segment), simplifying the result again removes nothing, the interval stack never under/overflows, input not written; (3) HC20_Simplify - the same end to end without the summary for n<=3|4.",
         "Ideal-arithmetic claim: the division inside distanceFromSegmentSquared is followed in exact real arithmetic; rounding near ties and ordinates whose products are inexact are outside the claim, as are n beyond the bound.", "6.C20"),
 "C10": ("bigxy.OrientationIndex / xy.OrientationIndex (floating-point filter AND math/big.Float fallback, real code) on every triple of points with integer-valued ordinates |v| <= 2^25, extra ordinates arbitrary: returns the sign of the exact determinant (Collinear iff exactly collinear), antisymmetric under exchanging two arguments, invariant under both cyclic rotations. Every float64 operation on the path is proved exact by a representability obligation (result an integer < 2^53), the multiplication by dpSafeEpsilon is enclosed by the (1+d) rounding model (both outcomes of the error-bound test explored), big.Float runs in a precision-tracking model; queries are pure NRA over the real relaxation of the grid, decided by z3 nlsat.",
         "Outside the claim: ordinates beyond 2^25 or non-integer (there the products round and the filter's Shewchuk bound and the 53-bit fallback matter) - a bug-hunting harness for 2^27..2^29 with the exact RN53 model exists (HC10_Search, tier 'search') but its integer queries do not terminate in this sandbox, so it is not part of the registered commands.", "6.C10"),
}

props = [json.loads(l) for l in open('/verif/properties.jsonl')]
m = {
 "version": 1,
 "setup_cmd": "./setup.sh",
 "hooks": {"guard": "verif", "enable": "none needed: harnesses are injected with go/packages Overlay (executor) and `go build -overlay` (native replay); /repo sources are not modified by the machinery",
           "baseline_off_cmd": "cd /repo && go test -vet=off -count=1 ./...", "source_commits": [], "add_only": True},
 "engines": [{"name": "gosym", "path": "/verif/engine", "serves_properties": sorted(checks), "kind_free_text": "bounded symbolic executor for Go SSA (golang.org/x/tools/go/ssa v0.29.0) emitting SMT-LIB2 to z3 over a pipe; native replay of models"}],
 "checks": [], "not_applicable": [],
 "notes": "Genuine defects found by these checks and repaired in /repo are listed in KNOWN_FINDINGS.txt (fixed: lines) and DESIGN.md.",
}
for p in props:
    pid = p["id"]
    if pid in checks:
        text, note, ref = checks[pid]
        m["checks"].append({
            "property_id": pid, "quick_cmd": f"./check {pid} quick", "thorough_cmd": f"./check {pid} thorough",
            "evidence_file": f"/verif/evidence/{pid}.json", "replay_cmd_template": f"./check {pid} --replay {{path}}", "engine": "gosym",
            "level_claimed": {"category": "other", "text": "Bounded verification by symbolic execution + SMT: " + text, "design_ref": "DESIGN.md " + ref},
            "level_note": LEVEL_NOTE_COMMON + note, "technique": TECH})
    else:
        m["not_applicable"].append({"property_id": pid, "reason": "check not built yet (work in progress; see DESIGN.md section 6 for the plan)"})
json.dump(m, open('/verif/MANIFEST.json', 'w'), indent=1)
print("checks:", len(m["checks"]), "n/a:", len(m["not_applicable"]))
