// Package sym is the harness API of the gosym symbolic executor.
//
// Under the executor every function here is intercepted by name and its body is never run.
// The bodies below are the NATIVE implementation used to replay a solver model against the
// natively compiled library: inputs come from the replay JSON file.
package sym

import (
	"encoding/json"
	"fmt"
	"math"
	"math/big"
	"os"
	"reflect"
	"runtime"
	"strconv"
	"unsafe"
)

type replayFile struct {
	Harness string            `json:"harness"`
	Tier    string            `json:"tier"`
	Inputs  map[string]string `json:"inputs"`
}

var (
	inputs   = map[string]string{}
	thorough bool
	frozen   []frozenEntry
)

type frozenEntry struct {
	ptr  unsafe.Pointer
	n    int
	copy []byte
	what string
}

// Load reads a replay file and returns the harness name.
func Load(path string) string {
	b, err := os.ReadFile(path)
	if err != nil {
		fmt.Println("SYM-ERROR", err)
		os.Exit(3)
	}
	var rf replayFile
	if err := json.Unmarshal(b, &rf); err != nil {
		fmt.Println("SYM-ERROR", err)
		os.Exit(3)
	}
	inputs = rf.Inputs
	thorough = rf.Tier == "thorough"
	return rf.Harness
}

func lookupU(name string) (uint64, bool) {
	s, ok := inputs[name]
	if !ok {
		return 0, false
	}
	if len(s) > 2 && s[:2] == "0x" {
		v, _ := strconv.ParseUint(s[2:], 16, 64)
		return v, true
	}
	v, err := strconv.ParseInt(s, 10, 64)
	if err == nil {
		return uint64(v), true
	}
	return 0, false
}

func Int(name string, lo, hi int) int {
	v, ok := lookupU(name)
	if !ok {
		return lo
	}
	return int(v)
}
// Choose is an enumerated choice in [lo,hi] (one path per value, no solver query).
func Choose(name string, lo, hi int) int { return Int(name, lo, hi) }

// Flip is an enumerated boolean choice.
func Flip(name string) bool { return Bool(name) }

func Byte(name string) byte     { v, _ := lookupU(name); return byte(v) }
func Uint32(name string) uint32 { v, _ := lookupU(name); return uint32(v) }
func Uint64(name string) uint64 { v, _ := lookupU(name); return v }
func Bool(name string) bool     { v, _ := lookupU(name); return v != 0 }

// Float64Bits is a float64 with an arbitrary bit pattern (domain B).
func Float64Bits(name string) float64 { v, _ := lookupU(name); return math.Float64frombits(v) }

func ratInput(name string) float64 {
	s, ok := inputs[name]
	if !ok {
		return 0
	}
	q, ok := new(big.Rat).SetString(s)
	if !ok {
		return 0
	}
	f, _ := q.Float64()
	return f
}

// Float64Grid is an integer-valued float64 with |v| <= 2^k (domain X).
func Float64Grid(name string, k int) float64 { return ratInput(name) }

// Float64Range is an integer-valued float64 in [lo,hi] (domain X).
func Float64Range(name string, lo, hi int) float64 { return ratInput(name) }

func Assume(c bool) {
	if !c {
		fmt.Println("SYM-ASSUME-FALSE (model does not satisfy a harness assumption natively)")
		os.Exit(0)
	}
}

// Assert natively records the failure and continues, so that a later failing assertion of the same
// run is visible too; the replay driver exits non-zero at the end (Failed).
func Assert(c bool, label string) {
	if concurrent {
		return
	}
	if !c {
		fmt.Printf("SYM-ASSERT-FAILED label=%q\n", label)
		failed = true
	}
}

var failed bool

// concurrent: the replay driver runs the harness in several goroutines under the race detector
// (confirmation of hidden shared mutable state); the sym bookkeeping itself must then stay silent.
var concurrent bool

// SetConcurrent switches the native side to concurrent mode.
func SetConcurrent() { concurrent = true }

// Failed reports whether any assertion failed (native replay only).
func Failed() bool { return failed }

// NoNaNInputs: every Float64Bits input created from now on is assumed not to be NaN.
func NoNaNInputs()                {}
func Cover(label string)          {}
func Tag(label string)            {}
func Bound(name string, v int)    {}
func Thorough() bool              { return thorough }
func Symbolic() bool              { return false }
func Concretize(x int) int        { return x }
func MayPanic(f func())           { f() }

var allocBase uint64
var allocArmed bool

// AllocLimit(n): every make() in library code from now on must have an element count <= n.
// Natively the total bytes allocated after this call are measured instead (see CheckAlloc).
func AllocLimit(n int) {
	if concurrent {
		return
	}
	var ms runtime.MemStats
	runtime.ReadMemStats(&ms)
	allocBase = ms.TotalAlloc
	allocArmed = true
}

// CheckAlloc (native only): a forged count makes the decoder allocate far more than the input
// and the limits justify; 64 MiB is three orders of magnitude above anything a harness needs.
func CheckAlloc() {
	if !allocArmed {
		return
	}
	var ms runtime.MemStats
	runtime.ReadMemStats(&ms)
	if ms.TotalAlloc-allocBase > 64<<20 {
		fmt.Printf("SYM-ALLOC-EXCEEDED %d bytes allocated\n", ms.TotalAlloc-allocBase)
		os.Exit(19)
	}
}
// Registry maps harness names to functions for the native replay driver.
var Registry = map[string]func(){}

// Register adds a harness to the registry (usable in package-level var initialisers).
func Register(name string, f func()) bool { Registry[name] = f; return true }

// Replace redirects, under the executor, every call of the function with the given fully qualified
// name to f (same signature): a summary or stub. Natively it does nothing: the replay runs the real code.
func Replace(name string, f interface{}) {}

// Original removes a replacement again.
func Original(name string) {}

// UFReal is an uninterpreted function of its arguments under the executor; natively it is native(args).
func UFReal(name string, native func([]float64) float64, args ...float64) float64 { return native(args) }

// Param is a bound that a debugging run may override on the command line (never in registered commands).
func Param(name string, def int) int { return def }

func Pick(quick, thorough_ int) int {
	if thorough {
		return thorough_
	}
	return quick
}

func And(a ...bool) bool {
	for _, x := range a {
		if !x {
			return false
		}
	}
	return true
}
func Or(a ...bool) bool {
	for _, x := range a {
		if x {
			return true
		}
	}
	return false
}
func Not(a bool) bool        { return !a }
func Implies(a, b bool) bool { return !a || b }
func IteInt(c bool, a, b int) int {
	if c {
		return a
	}
	return b
}
func IteF(c bool, a, b float64) float64 {
	if c {
		return a
	}
	return b
}
func IteBool(c, a, b bool) bool {
	if c {
		return a
	}
	return b
}
func SameBits(a, b float64) bool { return math.Float64bits(a) == math.Float64bits(b) }
func EqInt(a, b int) bool        { return a == b }
func FEq(a, b float64) bool      { return a == b }
func FLe(a, b float64) bool      { return a <= b }
func FLt(a, b float64) bool      { return a < b }
func IsNaN(a float64) bool       { return a != a }
func IsExact(a float64) bool     { return true }

// Itoa is a tiny decimal formatter usable under the executor (concrete arguments only).
func Itoa(i int) string {
	if i == 0 {
		return "0"
	}
	neg := i < 0
	if neg {
		i = -i
	}
	s := ""
	for i > 0 {
		s = string(rune('0'+i%10)) + s
		i /= 10
	}
	if neg {
		s = "-" + s
	}
	return s
}

// N builds an input name: N("c", 1, 2) == "c.1.2".
func N(base string, idx ...int) string {
	for _, i := range idx {
		base = base + "." + Itoa(i)
	}
	return base
}

// ---- memory monitors (native side: snapshots) ----

func walkSlices(v reflect.Value, seen map[unsafe.Pointer]bool, f func(ptr unsafe.Pointer, nbytes int, what string)) {
	switch v.Kind() {
	case reflect.Ptr, reflect.Interface:
		if !v.IsNil() {
			if v.Kind() == reflect.Ptr {
				p := v.UnsafePointer()
				if seen[p] {
					return
				}
				seen[p] = true
				e := v.Elem()
				if e.Kind() != reflect.Struct && e.Kind() != reflect.Array {
					f(p, int(e.Type().Size()), e.Type().String())
					return
				}
			}
			walkSlices(v.Elem(), seen, f)
		}
	case reflect.Struct:
		for i := 0; i < v.NumField(); i++ {
			walkSlices(v.Field(i), seen, f)
		}
	case reflect.Slice:
		if v.IsNil() || v.Cap() == 0 {
			return
		}
		p := v.UnsafePointer()
		et := v.Type().Elem()
		if !seen[p] {
			seen[p] = true
			f(p, v.Cap()*int(et.Size()), v.Type().String())
		}
		switch et.Kind() {
		case reflect.Slice, reflect.Ptr, reflect.Struct, reflect.Interface:
			for i := 0; i < v.Len(); i++ {
				walkSlices(v.Index(i), seen, f)
			}
		}
	case reflect.Array:
		for i := 0; i < v.Len(); i++ {
			walkSlices(v.Index(i), seen, f)
		}
	}
}

// Freeze marks everything reachable from x as caller-owned: library code must not write to it.
func Freeze(x interface{}) {
	if concurrent {
		return
	}
	walkSlices(reflect.ValueOf(x), map[unsafe.Pointer]bool{}, func(p unsafe.Pointer, n int, what string) {
		b := unsafe.Slice((*byte)(p), n)
		cp := make([]byte, n)
		copy(cp, b)
		frozen = append(frozen, frozenEntry{ptr: p, n: n, copy: cp, what: what})
	})
}

// CheckFrozen (native only; no-op under the executor, which monitors every store instead).
func CheckFrozen() {
	for _, fe := range frozen {
		b := unsafe.Slice((*byte)(fe.ptr), fe.n)
		for i := range b {
			if b[i] != fe.copy[i] {
				fmt.Printf("SYM-FROZEN-MODIFIED %s at byte %d\n", fe.what, i)
				os.Exit(18)
			}
		}
	}
}

// NoAlias reports whether no backing storage reachable from a is reachable from b.
func NoAlias(a, b interface{}) bool {
	type span struct{ lo, hi uintptr }
	var as []span
	walkSlices(reflect.ValueOf(a), map[unsafe.Pointer]bool{}, func(p unsafe.Pointer, n int, what string) {
		as = append(as, span{uintptr(p), uintptr(p) + uintptr(n)})
	})
	ok := true
	walkSlices(reflect.ValueOf(b), map[unsafe.Pointer]bool{}, func(p unsafe.Pointer, n int, what string) {
		lo, hi := uintptr(p), uintptr(p)+uintptr(n)
		for _, s := range as {
			if lo < s.hi && s.lo < hi && n > 0 {
				ok = false
			}
		}
	})
	return ok
}
