#!/usr/bin/env python3
"""Seeded-change bookkeeping.

  seed.py verify <worktree> <name> <property> "<needs>"   confirm a sub-agent's change in its scratch worktree
                                                          (demo fails with it, passes without, full suite passes with it)
                                                          and store it as /verif/seeded/<name>/
  seed.py run <name> [quick|thorough] [check-id ...]      apply seeded/<name>/patch.diff to /repo, run the checks, undo
  seed.py runall [quick|thorough]                         the same for every stored change (its own property's check)
"""
import json, os, subprocess, sys, shutil, glob, time

ENV = dict(os.environ, GOFLAGS="-mod=mod", GOPROXY="off", GOSUMDB="off", GOTOOLCHAIN="local")
SEEDED = "/verif/seeded"


def sh(cmd, cwd=None, timeout=3600):
    p = subprocess.run(cmd, shell=True, cwd=cwd, env=ENV, stdout=subprocess.PIPE, stderr=subprocess.STDOUT, text=True, timeout=timeout)
    return p.returncode, p.stdout


def verify(wt, name, prop, needs):
    rc, diff = sh("git diff", wt)
    if not diff.strip():
        sys.exit("no source change in " + wt)
    rc, out = sh("git status --porcelain", wt)
    demos = [l[3:] for l in out.splitlines() if l.startswith("??") and l.strip().endswith("_test.go")]
    if not demos:
        sys.exit("no untracked demo test in " + wt)
    changed = [l[3:] for l in out.splitlines() if l[:2].strip() == "M"]
    for f in changed:
        if f.endswith("_test.go"):
            sys.exit("change touches an existing test: " + f)
    ran = []
    results = {}
    for d in demos:
        pkg = "./" + os.path.dirname(d) if os.path.dirname(d) else "."
        cmd = f"go test -vet=off -count=1 -run 'TestSeededDemo$' {pkg}"
        rc1, o1 = sh(cmd, wt)
        ran.append(cmd + "   (with change) -> exit %d" % rc1)
        open("/tmp/seed/.verify.patch", "w").write(diff)
        sh("git apply -R /tmp/seed/.verify.patch", wt)
        rc2, o2 = sh(cmd, wt)
        sh("git apply /tmp/seed/.verify.patch", wt)
        ran.append(cmd + "   (without change) -> exit %d" % rc2)
        results[d] = (rc1, rc2, o1[-1500:])
    # full suite with the change, demo moved aside
    aside = []
    for d in demos:
        shutil.move(os.path.join(wt, d), os.path.join(wt, d + ".aside"))
        aside.append(d)
    rc3, o3 = sh("go build ./... && go test -vet=off -count=1 ./...", wt)
    for d in aside:
        shutil.move(os.path.join(wt, d + ".aside"), os.path.join(wt, d))
    ran.append("go build ./... && go test -vet=off -count=1 ./...   (with change, demo aside) -> exit %d" % rc3)
    ok = rc3 == 0 and all(r[0] != 0 and r[1] == 0 for r in results.values())
    print("\n".join(ran))
    if not ok:
        print("NOT CONFIRMED", {k: v[:2] for k, v in results.items()}, "suite", rc3)
        print(o3[-2000:])
        for k, v in results.items():
            print(v[2])
        sys.exit(1)
    dst = os.path.join(SEEDED, name)
    os.makedirs(dst, exist_ok=True)
    open(os.path.join(dst, "patch.diff"), "w").write(diff)
    for d in demos:
        os.makedirs(os.path.join(dst, "demo", os.path.dirname(d)), exist_ok=True)
        shutil.copy(os.path.join(wt, d), os.path.join(dst, "demo", d))
    meta = {"property": prop, "needs_to_manifest": needs, "changed_files": changed, "demo": ["demo/" + d for d in demos],
            "confirmed": ran, "detected_by": {}}
    json.dump(meta, open(os.path.join(dst, "meta.json"), "w"), indent=1)
    print("CONFIRMED -> " + dst)


def run(name, tier="quick", checks=None):
    dst = os.path.join(SEEDED, name)
    meta = json.load(open(os.path.join(dst, "meta.json")))
    checks = checks or [meta["property"]]
    rc, st = sh("git status --porcelain", "/repo")
    if st.strip():
        sys.exit("/repo is not clean:\n" + st)
    rc, out = sh("git apply " + os.path.join(dst, "patch.diff"), "/repo")
    if rc != 0:
        sys.exit("patch does not apply: " + out)
    res = {}
    try:
        for c in checks:
            t0 = time.time()
            rc, out = sh(f"./check {c} {tier} -no-evidence", "/verif", timeout=7200)
            lines = [l for l in out.splitlines() if l.startswith("VIOLATION") or l.startswith("KNOWN") or l.startswith("INCONCLUSIVE") or l.startswith("  harness=")]
            res[c] = {"exit": rc, "tier": tier, "wall_s": round(time.time() - t0, 1), "lines": lines[:8]}
            print(name, c, tier, "exit", rc, "%.0fs" % (time.time() - t0))
            for l in lines[:8]:
                print("   ", l[:300])
    finally:
        sh("git checkout -- .", "/repo")
        # replay files written for seeded runs are scratch
    meta.setdefault("detected_by", {})
    for c, r in res.items():
        meta["detected_by"][c + ":" + tier] = r
    json.dump(meta, open(os.path.join(dst, "meta.json"), "w"), indent=1)
    return res


if __name__ == "__main__":
    if sys.argv[1] == "verify":
        verify(sys.argv[2], sys.argv[3], sys.argv[4], sys.argv[5])
    elif sys.argv[1] == "run":
        tier = "quick"
        rest = sys.argv[3:]
        if rest and rest[0] in ("quick", "thorough"):
            tier = rest[0]
            rest = rest[1:]
        run(sys.argv[2], tier, rest or None)
    elif sys.argv[1] == "runall":
        tier = sys.argv[2] if len(sys.argv) > 2 else "quick"
        for d in sorted(glob.glob(SEEDED + "/*/meta.json")):
            run(os.path.basename(os.path.dirname(d)), tier)
