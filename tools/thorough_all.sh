#!/bin/sh
# runs every registered check's thorough tier (3 lanes x 5 workers), 20 min cap each; prints a summary
cd "$(dirname "$0")/.."
./setup.sh
lane() {
  for p in "$@"; do
    t0=$(date +%s)
    timeout 1200 ./check $p thorough -no-evidence -workers 5 > /tmp/thorough_$p.log 2>&1
    rc=$?
    echo "$p exit=$rc secs=$(( $(date +%s) - t0 )) $(grep -c '^harness' /tmp/thorough_$p.log) harnesses; $(grep -h 'INCONCLUSIVE\|VIOLATION' /tmp/thorough_$p.log | head -2 | cut -c1-200)"
  done
}
lane C01 C04 C09 C12 C15 C18 &
lane C02 C06 C10 C13 C16 C20 &
lane C03 C08 C11 C14 C17 &
wait
